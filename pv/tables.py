"""Name->number tables of the repository's enums (used by the reference machine and the source
interpreter; their internal consistency is what C16 checks)."""
import enum

from . import repo

_cache = None


def enum_tables():
    global _cache
    if _cache is None:
        repo.load()
        from stationeers_pytrapic import types_generated as tg

        plain, qual = {}, {}
        for n, c in vars(tg).items():
            if isinstance(c, type) and issubclass(c, enum.IntEnum) and c is not enum.IntEnum:
                for k, v in c.__members__.items():
                    qual[f"{n}.{k}"] = float(v.value)
                    if n in ("LogicType", "LogicSlotType", "LogicBatchMethod", "LogicReagentMode"):
                        plain.setdefault(n, {})[k] = float(v.value)
        _cache = (plain, qual)
    return _cache
