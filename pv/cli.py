"""check <ID> [--tier quick|thorough] [--replay FILE]"""
import argparse
import os
import sys
import traceback


def main():
    ap = argparse.ArgumentParser()
    ap.add_argument("prop")
    ap.add_argument("--tier", default=os.environ.get("VERIF_TIER", "quick"), choices=["quick", "thorough"])
    ap.add_argument("--replay")
    a = ap.parse_args()
    try:
        seed = int(os.environ.get("VERIF_SEED", "1") or "1")
    except ValueError:
        seed = 1
    prop = a.prop.upper()
    try:
        from pv import repo, runner

        repo.load()
        if a.replay:
            return runner.run_replay(prop, a.replay)
        return runner.run_check(prop, a.tier, seed)
    except SystemExit:
        raise
    except BaseException:
        sys.stdout.flush()
        print("HARNESS-ERROR " + prop, file=sys.stderr)
        traceback.print_exc()
        return 2


if __name__ == "__main__":
    sys.exit(main())
