"""E3 device environment + the source-vs-compiled and compiled-vs-compiled comparisons (DESIGN 0.3)."""
import math
import zlib

from . import ic10vm, repo, tables

DEFAULT_POOL = [0.0, 1.0, 2.0, 3.0, -1.0, 0.5, 5.0, 10.0, 100.0, -7.0, 0.25, 4.0, 6.0, 7.0, 20.0, 1000.0]


def make_env(seed, pool=None):
    pool = list(pool or DEFAULT_POOL)

    def env(key, epoch):
        h = zlib.crc32(repr((key, epoch, seed)).encode())
        return pool[h % len(pool)]

    return env


def veq(a, b, tol=1e-9):
    if isinstance(a, float) and isinstance(b, float):
        if math.isnan(a) and math.isnan(b):
            return True
        if a == b:
            return True
        if math.isinf(a) or math.isinf(b):
            return False
        return abs(a - b) <= tol * max(abs(a), abs(b))
    if isinstance(a, tuple) and isinstance(b, tuple):
        return len(a) == len(b) and all(veq(x, y, tol) for x, y in zip(a, b))
    return a == b


def first_diff(ta, tb):
    n = min(len(ta), len(tb))
    for i in range(n):
        if not veq(ta[i], tb[i]):
            return i
    return None


def jsonable(x):
    if isinstance(x, tuple) or isinstance(x, list):
        return [jsonable(y) for y in x]
    if isinstance(x, float):
        if math.isnan(x):
            return "nan"
        if math.isinf(x):
            return "inf" if x > 0 else "-inf"
    return x


def trace_shape(trace):
    """effect kinds and targets without values: differs between environments iff control flow
    depended on a read"""
    return tuple((e[0],) + tuple(e[1:-1]) if len(e) > 1 else e for e in trace)


class Verdict(dict):
    @property
    def kind(self):
        return self["kind"]


def vm_budget(src_steps):
    return min(60 * src_steps + 2000, 400000)


def run_vm(code, env_seed, pool, max_steps, max_effects, machine_cls=ic10vm.Machine, setup=None):
    m = machine_cls(code, make_env(env_seed, pool), tables.enum_tables(), max_steps=max_steps, max_effects=max_effects)
    if setup:
        setup(m)
    m.run()
    return m


def compare_src_vm(it, m):
    """it: finished Interp, m: finished Machine -> (kind, detail)"""
    ts, tv = it.trace, m.trace
    i = first_diff(ts, tv)
    if i is not None:
        return "mismatch", {"what": "effect", "index": i, "src": jsonable(ts[i]), "vm": jsonable(tv[i])}
    if len(ts) != len(tv):
        if len(ts) > len(tv):
            if m.halted == "end":
                return "mismatch", {"what": "compiled-stops-early", "src_len": len(ts), "vm_len": len(tv)}
            if m.halted == "steps":
                return "mismatch", {"what": "compiled-spins", "src_len": len(ts), "vm_len": len(tv)}
            return "inconclusive", {"what": "vm " + str(m.halted)}
        if it.halted == "end":
            return "mismatch", {"what": "compiled-extra-effects", "src_len": len(ts), "vm_len": len(tv),
                                "extra": jsonable(tv[len(ts)])}
        return "inconclusive", {"what": "source " + str(it.halted)}
    if it.halted == "end" and m.halted == "steps":
        return "mismatch", {"what": "compiled-does-not-halt", "len": len(ts)}
    if it.halted == "steps":
        return "inconclusive", {"what": "source steps"}
    return "ok", {"effects": len(ts), "src_halt": it.halted, "vm_halt": m.halted}


def compare_vm_vm(a, b):
    """two finished Machines run under the same environment and budgets"""
    ta, tb = a.trace, b.trace
    i = first_diff(ta, tb)
    if i is not None:
        return "mismatch", {"what": "effect", "index": i, "a": jsonable(ta[i]), "b": jsonable(tb[i])}
    if len(ta) != len(tb):
        short, long_ = (a, b) if len(ta) < len(tb) else (b, a)
        if short.halted in ("end", "hcf"):
            return "mismatch", {"what": "length", "lens": [len(ta), len(tb)], "halts": [a.halted, b.halted]}
        if short.halted == "steps":
            # ran out of instruction budget: a violation only if the other side got further
            # well inside the same budget
            if long_.steps * 4 < short.max_steps:
                return "mismatch", {"what": "one-side-spins", "lens": [len(ta), len(tb)],
                                    "halts": [a.halted, b.halted]}
            return "inconclusive", {"what": "budget"}
        return "inconclusive", {"what": "halts", "halts": [a.halted, b.halted]}
    if a.halted != b.halted:
        ends = {a.halted, b.halted}
        if ends == {"end", "steps"}:
            fin = a if a.halted == "end" else b
            spin = b if a.halted == "end" else a
            if fin.steps * 4 < spin.max_steps:
                return "mismatch", {"what": "one-side-does-not-halt", "halts": [a.halted, b.halted]}
            return "inconclusive", {"what": "budget"}
    return "ok", {"effects": len(ta)}
