"""Diagnostic monitors over the reference machine: provenance tags (C04), regions (C07),
return sites (C06).  They use the PYTRAPIC_VERIF hook records (virtual register names, owning
scope per emitted instruction)."""
import re

from . import ic10vm

REG = re.compile(r"^r\d+$")


class AlignError(Exception):
    pass


def norm(text):
    return " ".join(ic10vm.tokenize(text))


def align(code, recs):
    """map final text line index -> hook record.  Works for labelled output (unused labels were
    stripped: match sequentially by text) and for label-free output (labels became numbers: the
    i-th line is the i-th non-label record)."""
    lines = code.split("\n")
    toks = [ic10vm.tokenize(l) for l in lines]
    out = {}
    nonlabel = [r for r in recs if not r["text"].rstrip().endswith(":")]
    has_labels = any(ic10vm.is_label_line(t) for t in toks)
    code_lines = [i for i, t in enumerate(toks) if t]
    if not has_labels and len(code_lines) == len(nonlabel):
        ok = True
        for i, r in zip(code_lines, nonlabel):
            if toks[i][0] != ic10vm.tokenize(r["text"])[0]:
                ok = False
                break
        if ok:
            for i, r in zip(code_lines, nonlabel):
                out[i] = r
            return out
    k = 0
    for i in code_lines:
        t = " ".join(toks[i])
        while k < len(recs) and norm(recs[k]["text"]) != t:
            k += 1
        if k >= len(recs):
            raise AlignError("cannot align line %d %r" % (i, lines[i]))
        out[i] = recs[k]
        k += 1
    return out


class TagMonitor:
    """per physical register: virtual name of the last writer; on each read the tag must be the
    virtual name the operand denotes"""

    def __init__(self, machine, recmap):
        self.m = machine
        self.recmap = recmap
        self.tags = {}
        self.tag_scope = {}
        self.tag_region = {}
        self.clobbers = []
        self.virtuals = set()
        self.phys_share = {}
        self._pending = None
        machine.exec_hook = self.on_exec
        machine.write_hook = self.on_write

    def on_exec(self, pc, t):
        self._pending = None
        rec = self.recmap.get(pc)
        if not rec:
            return
        ops = t[1:]
        if rec["out"] is not None:
            if not ops:
                return
            outtok, intoks = ops[0], ops[1:]
        else:
            outtok, intoks = None, ops
        for oi, (tok, v) in enumerate(zip(intoks, rec["ins"])):
            if v and v.startswith("__register.") and REG.match(tok):
                self.virtuals.add(v)
                tg = self.tags.get(tok)
                if tg is not None and tg != v:
                    self.clobbers.append({
                        "line": pc, "text": " ".join(t), "reg": tok, "expected": v, "found": tg,
                        "input_index": oi,
                        "reader_scope": rec.get("scope"), "writer_scope": self.tag_scope.get(tok),
                        "reader_region": rec.get("region"), "writer_region": self.tag_region.get(tok),
                    })
        if outtok and rec["out"] and rec["out"].startswith("__register.") and REG.match(outtok):
            self._pending = (outtok, rec["out"], rec.get("scope"), rec.get("region"))

    def on_write(self, pc, regtok):
        p = self._pending
        if p and p[0] == regtok:
            self.tags[regtok] = p[1]
            self.tag_scope[regtok] = p[2]
            self.tag_region[regtok] = p[3]
            self.virtuals.add(p[1])
            self.phys_share.setdefault(regtok, set()).add(p[1])
            self._pending = None


class RegionMonitor:
    """function regions may be entered only by a call, a return, or a jump from inside a function"""

    def __init__(self, machine, recmap, stop_on_fallthrough=False):
        self.m = machine
        self.stop_on_fallthrough = stop_on_fallthrough
        self.scope_of = {}
        for i, r in recmap.items():
            self.scope_of[i] = r.get("region") or ""
        # label lines / gaps inherit the scope of the next mapped line
        n = len(machine.lines)
        nxt = None
        for i in range(n - 1, -1, -1):
            if i in self.scope_of:
                nxt = self.scope_of[i]
            elif nxt is not None:
                self.scope_of[i] = nxt
        self.violations = []
        # first line that belongs to an emitted function = the position right behind the main code
        self.main_end = min([i for i, sc in self.scope_of.items() if sc != ""], default=None)
        machine.transfer_hook = self.on_transfer

    def region(self, pc):
        return self.scope_of.get(pc, "")

    def on_transfer(self, pc, new, kind):
        if kind == "ret" and new >= 1:
            # returning behind a call that was the last instruction of its region is sequential
            # flow from that region into the next one
            pc, kind = new - 1, "seq"
        a, b = self.region(pc), self.region(new) if new < len(self.m.lines) else "<end>"
        if a == b:
            return
        if b == "<end>":
            return
        if a == "" and b != "":
            if kind == "call":
                return
            if kind == "jump" and new == self.main_end:
                # a jump to the end of the main code (loop exit, if-end) is the same missing terminator
                kind = "seq"
            self.violations.append({"kind": kind, "from": pc, "to": new, "from_scope": a, "to_scope": b})
            if kind == "seq" and self.stop_on_fallthrough:
                # pretend the missing terminator were there: the program ends with its main code
                self.m.halted = "fallthrough"
        elif a != "" and b != "":
            # function to function: calls, returns and tail jumps are fine; sequential flow is not
            if kind == "seq":
                self.violations.append({"kind": kind, "from": pc, "to": new, "from_scope": a, "to_scope": b})


def function_entries(recmap):
    """line index of the first instruction of every emitted function"""
    first = {}
    for i in sorted(recmap):
        reg = recmap[i].get("region") or ""
        if reg and reg not in first:
            first[reg] = i
    return first


def entry_line(m, recmap, line):
    """does a call to `line` enter an emitted function (as opposed to an internal subroutine)?"""
    entries = set(function_entries(recmap).values())
    if line in entries:
        return True
    # a label line directly in front of the entry
    j = line
    while j < len(m.lines) and (not m.lines[j] or (len(m.lines[j]) == 1 and m.lines[j][0].endswith(":"))):
        j += 1
    return j in entries


def bad_returns(m, recmap=None):
    """return events that do not land behind the call being served.  Frames of internal subroutines
    (call target is not a function entry) may be skipped by a `return` inside a list-loop body."""
    out = []
    for e in m.ret_events:
        if e[2] is None:
            out.append(("C06:return-without-call", e))
        elif e[1] != e[2]:
            out.append(("C06:return-to-wrong-site", e))
        elif e[8]:
            if recmap is None or any(entry_line(m, recmap, t) for t in e[8]):
                out.append(("C06:return-skips-a-function-frame", e))
    return out
