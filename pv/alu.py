"""IC10 arithmetic shared by the IC10 VM and the source-level reference interpreter."""
import math

NAN = float("nan")
INF = float("inf")


def _f(x):
    return float(x)


def _long(x):
    x = _f(x)
    if math.isnan(x) or math.isinf(x):
        return 0
    v = int(x)  # truncation toward zero, like (long) cast
    v &= (1 << 64) - 1
    if v >= 1 << 63:
        v -= 1 << 64
    return v


def _wrap(v):
    v &= (1 << 64) - 1
    if v >= 1 << 63:
        v -= 1 << 64
    return float(v)


def add(a, b):
    return _f(a) + _f(b)


def sub(a, b):
    return _f(a) - _f(b)


def mul(a, b):
    return _f(a) * _f(b)


def div(a, b):
    a, b = _f(a), _f(b)
    if b == 0:
        if a == 0 or math.isnan(a):
            return NAN
        neg = (a < 0) != (math.copysign(1.0, b) < 0)
        return -INF if neg else INF
    return a / b


def mod(a, b):
    a, b = _f(a), _f(b)
    if b == 0 or math.isnan(a) or math.isnan(b) or math.isinf(a):
        return NAN
    if math.isinf(b):
        r = a
    else:
        r = math.fmod(a, b)
    if r < 0:
        r += b
    return r


def pow_(a, b):
    a, b = _f(a), _f(b)
    try:
        return math.pow(a, b)
    except OverflowError:
        return INF
    except (ValueError, ZeroDivisionError):
        if a == 0 and b < 0:
            return INF
        return NAN


def _guard(fn):
    def g(*a):
        try:
            return float(fn(*[_f(x) for x in a]))
        except OverflowError:
            return INF
        except (ValueError, ZeroDivisionError):
            return NAN

    return g


sqrt = _guard(math.sqrt)
exp = _guard(math.exp)


def log(a):
    a = _f(a)
    if math.isnan(a) or a < 0:
        return NAN
    if a == 0:
        return -INF
    return math.log(a)


sin = _guard(math.sin)
cos = _guard(math.cos)
tan = _guard(math.tan)
asin = _guard(math.asin)
acos = _guard(math.acos)
atan = _guard(math.atan)
atan2 = _guard(math.atan2)
abs_ = _guard(abs)


def _int_guard(fn):
    def g(a):
        a = _f(a)
        if math.isnan(a) or math.isinf(a):
            return a
        return float(fn(a))

    return g


floor = _int_guard(math.floor)
ceil = _int_guard(math.ceil)
trunc = _int_guard(math.trunc)
round_ = _int_guard(round)  # banker's rounding, like Math.Round


def max_(a, b):
    a, b = _f(a), _f(b)
    if math.isnan(a) or math.isnan(b):
        return NAN
    return max(a, b)


def min_(a, b):
    a, b = _f(a), _f(b)
    if math.isnan(a) or math.isnan(b):
        return NAN
    return min(a, b)


def and_(a, b):
    return _wrap(_long(a) & _long(b))


def or_(a, b):
    return _wrap(_long(a) | _long(b))


def xor(a, b):
    return _wrap(_long(a) ^ _long(b))


def nor(a, b):
    return _wrap(~(_long(a) | _long(b)))


def not_(a):
    return _wrap(~_long(a))


def sll(a, b):
    return _wrap(_long(a) << (_long(b) & 63))


def srl(a, b):
    return _wrap((_long(a) & ((1 << 64) - 1)) >> (_long(b) & 63))


def sra(a, b):
    return _wrap(_long(a) >> (_long(b) & 63))


def b2f(x):
    return 1.0 if x else 0.0


def seq(a, b):
    return b2f(_f(a) == _f(b))


def sne(a, b):
    return b2f(_f(a) != _f(b))


def slt(a, b):
    return b2f(_f(a) < _f(b))


def sle(a, b):
    return b2f(_f(a) <= _f(b))


def sgt(a, b):
    return b2f(_f(a) > _f(b))


def sge(a, b):
    return b2f(_f(a) >= _f(b))


def select(a, b, c):
    return _f(b) if _f(a) != 0 else _f(c)


def lerp(a, b, c):
    a, b, c = _f(a), _f(b), _f(c)
    c = min(1.0, max(0.0, c))
    return a + (b - a) * c


def sap(a, b, c):
    """approximately equal, as the game defines it: |a-b| <= max(c*max(|a|,|b|), 8*float.Epsilon)"""
    a, b, c = _f(a), _f(b), _f(c)
    if math.isnan(a) or math.isnan(b) or math.isnan(c):
        return 0.0
    return b2f(abs(a - b) <= max(c * max(abs(a), abs(b)), 8 * 1.401298464324817e-45))


CMP = {"eq": seq, "ne": sne, "lt": slt, "le": sle, "gt": sgt, "ge": sge}

BIN = {
    "add": add, "sub": sub, "mul": mul, "div": div, "mod": mod, "pow": pow_,
    "and": and_, "or": or_, "xor": xor, "nor": nor, "sll": sll, "sla": sll,
    "srl": srl, "sra": sra, "max": max_, "min": min_, "atan2": atan2,
    "seq": seq, "sne": sne, "slt": slt, "sle": sle, "sgt": sgt, "sge": sge,
}
UN = {
    "sqrt": sqrt, "exp": exp, "log": log, "sin": sin, "cos": cos, "tan": tan,
    "asin": asin, "acos": acos, "atan": atan, "abs": abs_, "floor": floor,
    "ceil": ceil, "trunc": trunc, "round": round_, "not": not_,
    "seqz": lambda a: seq(a, 0), "snez": lambda a: sne(a, 0),
    "sltz": lambda a: slt(a, 0), "slez": lambda a: sle(a, 0),
    "sgtz": lambda a: sgt(a, 0), "sgez": lambda a: sge(a, 0),
    "snan": lambda a: b2f(math.isnan(_f(a))),
    "snanz": lambda a: b2f(not math.isnan(_f(a))),
    "move": lambda a: _f(a),
}
