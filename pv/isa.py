"""Hand-written IC10 instruction table: opcode -> operand kinds.

kinds:  r  register written (r0-r15, sp, ra or an alias of one)
        v  value: register or numeric literal / define / enum constant / label
        d  device: d0-d5, db, dr?, an alias of one, or a value holding a reference id
        i  reference id value (same as v)
        lt logic type, st slot type, bm batch mode, rm reagent mode (name or value)
        t  jump target: label, line number or register
        n  name introduced by alias/define
        a  alias target: register or device pin
Membership of the opcode set is checked against webapp/src/ic10.json at start-up."""
import json
import os
import re

from . import repo

T = {}


def _add(ops, kinds):
    for o in ops.split():
        T[o] = kinds.split()


_add("alias", "n a")
_add("define", "n v")
_add("hcf yield", "")
_add("sleep", "v")
_add("abs ceil exp floor log move round sqrt trunc acos asin atan cos sin tan not seqz sgez sgtz slez sltz snez snan snanz", "r v")
_add("add div pow max min mod mul sub atan2 and nor or sla sll sra srl xor seq sge sgt sle slt sne sapz snaz", "r v v")
_add("lerp select sap sna ext ins", "r v v v")
_add("rand peek pop", "r")
_add("clr", "d")
_add("clrd", "i")
_add("get", "r d v")
_add("getd", "r i v")
_add("poke", "v v")
_add("push", "v")
_add("put", "d v v")
_add("putd", "i v v")
_add("l", "r d lt")
_add("lr", "r d rm v")
_add("ls", "r d v st")
_add("s", "d lt v")
_add("ss", "d v st v")
_add("rmap", "r d v")
_add("lb", "r v lt bm")
_add("lbn", "r v v lt bm")
_add("lbns", "r v v v st bm")
_add("lbs", "r v v st bm")
_add("sb", "v lt v")
_add("sbn", "v v lt v")
_add("sbs", "v v st v")
_add("sdns sdse", "r d")
_add("j jal jr", "t")
_add("bdnvl bdnvs", "d lt t")
_add("bdns bdnsal bdse bdseal brdns brdse", "d t")
_add("bap brap bapal bna brna bnaal", "v v v t")
_add("bapz brapz bapzal bnaz brnaz bnazal", "v v t")
for c in "eq ge gt le lt ne".split():
    _add(f"b{c} br{c} b{c}al", "v v t")
    _add(f"b{c}z br{c}z b{c}zal", "v t")
_add("bnan brnan", "v t")

HAS_OUTPUT = {op for op, k in T.items() if k and k[0] == "r"}

REG = re.compile(r"^(r([0-9]|1[0-5])|sp|ra)$")
RREG = re.compile(r"^r+([0-9]|1[0-5])$")  # indirect rr0 ... allowed by the game, never emitted here
DEV = re.compile(r"^d([0-5]|b)(:\d+)?$")
NUM = re.compile(r"^[-+]?(\d+\.?\d*|\.\d+)([eE][-+]?\d+)?$")
HEX = re.compile(r"^\$[0-9A-Fa-f_]+$")
BIN = re.compile(r"^%[01_]+$")
HASHRE = re.compile(r"""^HASH\(("[^"]*"|'[^']*')\)$""")  # the README's own example emits HASH('..')
STRRE = re.compile(r"""^STR\(("[^"]*"|'[^']*')\)$""")
IDENT = re.compile(r"^[A-Za-z_][A-Za-z0-9_.]*$")
FORBIDDEN = re.compile(r"__register|^None$|^True$|^False$|^nan$|^-?inf$|^<|>$|\(.*j\)$|^\[|\]$|^\{|\}$")


def check_membership():
    path = os.path.join(repo.REPO, "webapp", "src", "ic10.json")
    with open(path) as f:
        ins = set(json.load(f)["instructions"])
    if ins != set(T):
        raise repo.HarnessError(f"pv/isa.py and webapp/src/ic10.json disagree: only-json={sorted(ins - set(T))} only-table={sorted(set(T) - ins)}")
    return len(ins)


def is_numeric_literal(t):
    return bool(NUM.match(t) or HEX.match(t) or BIN.match(t) or HASHRE.match(t) or STRRE.match(t))


def operand_problem(kind, tok, env):
    """env: dict(aliases=set, defines=set, labels=set, enums=(plain, qual)) -> problem text or None"""
    if tok == "" or FORBIDDEN.search(tok):
        return "placeholder-or-python-spelling"
    plain, qual = env["enums"]
    is_reg = bool(REG.match(tok)) or tok in env["reg_aliases"]
    is_dev = bool(DEV.match(tok)) or tok in env["dev_aliases"]
    is_val = is_reg or is_numeric_literal(tok) or tok in env["defines"] or tok in qual or tok in env["labels"]
    if kind == "r":
        return None if is_reg else "not-a-register"
    if kind in ("v", "i"):
        return None if is_val else "not-a-value"
    if kind == "d":
        return None if (is_dev or is_val) else "not-a-device"
    if kind == "t":
        return None if (is_val) else "not-a-target"
    if kind in ("lt", "st", "bm", "rm"):
        cls = {"lt": "LogicType", "st": "LogicSlotType", "bm": "LogicBatchMethod", "rm": "LogicReagentMode"}[kind]
        if is_val or tok in plain.get(cls, {}):
            return None
        # generic Device objects let the user name any logic type: accept identifiers, flag junk
        return None if (IDENT.match(tok) and kind in ("lt", "st")) else "not-a-" + cls
    if kind == "n":
        return None if IDENT.match(tok) else "bad-name"
    if kind == "a":
        return None if (is_reg or is_dev) else "bad-alias-target"
    return "unknown-kind"


def validate(code, enums, tokenize):
    """-> list of (line_index, problem, text).  A line is a label definition or one instruction."""
    lines = code.split("\n")
    toks = [tokenize(l) for l in lines]
    env = {"reg_aliases": set(), "dev_aliases": set(), "defines": set(), "labels": set(), "enums": enums}
    for t in toks:
        if len(t) == 1 and t[0].endswith(":") and IDENT.match(t[0][:-1]):
            env["labels"].add(t[0][:-1])
    problems = []
    for i, t in enumerate(toks):
        if not t:
            if lines[i].split("#")[0].strip() == "" and lines[i].strip() == "" and len(lines) > 1:
                # an empty line is loadable; not flagged
                pass
            continue
        if len(t) == 1 and t[0].endswith(":"):
            if not IDENT.match(t[0][:-1]):
                problems.append((i, "bad-label-name", lines[i]))
            continue
        op, args = t[0], t[1:]
        if op not in T:
            problems.append((i, "unknown-opcode:" + op[:12], lines[i]))
            continue
        kinds = T[op]
        if len(args) != len(kinds):
            problems.append((i, f"operand-count:{op}", lines[i]))
            continue
        for k, a in zip(kinds, args):
            p = operand_problem(k, a, env)
            if p:
                problems.append((i, f"{p}:{op}", lines[i]))
        if op == "alias" and len(args) == 2:
            if REG.match(args[1]) or args[1] in env["reg_aliases"]:
                env["reg_aliases"].add(args[0])
            else:
                env["dev_aliases"].add(args[0])
        if op == "define" and len(args) == 2:
            env["defines"].add(args[0])
    return problems
