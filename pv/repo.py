"""Locate and import the code under test (always the working tree, never a stale install)."""
import os
import sys

REPO = os.environ.get("PV_REPO", "/repo")
SRC = os.path.join(REPO, "src")
os.environ.setdefault("PYTRAPIC_VERIF", "1")

_loaded = False


class HarnessError(Exception):
    pass


def load():
    """import stationeers_pytrapic from REPO/src; returns the compiler module"""
    global _loaded
    if SRC not in sys.path[:1]:
        if SRC in sys.path:
            sys.path.remove(SRC)
        sys.path.insert(0, SRC)
    import stationeers_pytrapic
    from stationeers_pytrapic import compiler

    here = os.path.realpath(stationeers_pytrapic.__file__)
    if not here.startswith(os.path.realpath(SRC) + os.sep):
        raise HarnessError(f"stationeers_pytrapic imported from {here}, expected under {SRC}")
    if not _loaded:
        _install_fast_infer()
    _loaded = True
    return compiler


# ---------------------------------------------------------------------------------------------
# Speed instrumentation (harness side only, nothing in /repo changes).  utils.is_constant() ends in
#     try: inferred = node.inferred()  except Exception: return False, None
#     return False, None
# i.e. the astroid inference result is discarded, but inference dominates compile time (10x) on
# generated programs.  While FAST["on"], calls to .inferred() made from inside is_constant raise
# InferenceError at once, which takes the same `return False, None` path.  compile_src()
# re-compiles every Nth program with the switch off and compares the two results; on the first
# difference the switch stays off for the rest of the process (noted in the evidence), so a tree in
# which inference starts to matter is still judged by its real behaviour.
FAST = {"on": os.environ.get("PV_FAST_INFER", "1") != "0", "checked": 0, "disabled_because": None, "n": 0}
_depth = [0]


def _install_fast_infer():
    import astroid
    from stationeers_pytrapic import compile_pass, utils

    orig_inferred = astroid.nodes.NodeNG.inferred

    def inferred(self, context=None):
        if FAST["on"] and _depth[0] > 0:
            raise astroid.InferenceError("skipped by the verification harness")
        return orig_inferred(self, context)

    astroid.nodes.NodeNG.inferred = inferred
    orig = utils.is_constant

    def is_constant(node, data):
        _depth[0] += 1
        try:
            return orig(node, data)
        finally:
            _depth[0] -= 1

    is_constant.__wrapped__ = orig
    utils.is_constant = is_constant
    if getattr(compile_pass, "is_constant", None) is orig:
        compile_pass.is_constant = is_constant


def _strip(res):
    return {k: v for k, v in res.items() if k != "_verif"}


HDR = "from stationeers_pytrapic.symbols import *\n"

OPTION_NAMES = [
    "original_code_as_comment",
    "generated_comments",
    "inline_functions",
    "remove_labels",
    "append_version",
    "compact",
    "tail_call_optimization",
    "use_push_pop_functions",
]

DEFAULTS = {
    "original_code_as_comment": False,
    "generated_comments": False,
    "inline_functions": True,
    "remove_labels": False,
    "append_version": True,
    "compact": False,
    "tail_call_optimization": False,
    "use_push_pop_functions": False,
}


def compile_src(src, opts=None):
    """compile_code with options given as a dict of overrides over the API defaults
    (append_version defaults to False here)."""
    comp = load()
    o = {"append_version": False}
    o.update(opts or {})
    if isinstance(src, dict):
        src = dict(src)
    res = comp.compile_code(src, comp.CompileOptions(**o))
    if FAST["on"]:
        FAST["n"] += 1
        if FAST["n"] % 20 == 1:
            FAST["on"] = False
            try:
                slow = comp.compile_code(dict(src) if isinstance(src, dict) else src, comp.CompileOptions(**o))
            finally:
                FAST["on"] = True
            FAST["checked"] += 1
            if _strip(slow) != _strip(res):
                FAST["on"] = False
                FAST["disabled_because"] = "result with inference skipped differs from the real result"
                return slow
    return res
