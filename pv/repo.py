"""Locate and import the code under test (always the working tree, never a stale install)."""
import os
import sys

REPO = os.environ.get("PV_REPO", "/repo")
SRC = os.path.join(REPO, "src")
os.environ.setdefault("PYTRAPIC_VERIF", "1")

_loaded = False


class HarnessError(Exception):
    pass


def load():
    """import stationeers_pytrapic from REPO/src; returns the compiler module"""
    global _loaded
    if SRC not in sys.path[:1]:
        if SRC in sys.path:
            sys.path.remove(SRC)
        sys.path.insert(0, SRC)
    import stationeers_pytrapic
    from stationeers_pytrapic import compiler

    here = os.path.realpath(stationeers_pytrapic.__file__)
    if not here.startswith(os.path.realpath(SRC) + os.sep):
        raise HarnessError(f"stationeers_pytrapic imported from {here}, expected under {SRC}")
    _loaded = True
    return compiler


HDR = "from stationeers_pytrapic.symbols import *\n"

OPTION_NAMES = [
    "original_code_as_comment",
    "generated_comments",
    "inline_functions",
    "remove_labels",
    "append_version",
    "compact",
    "tail_call_optimization",
    "use_push_pop_functions",
]

DEFAULTS = {
    "original_code_as_comment": False,
    "generated_comments": False,
    "inline_functions": True,
    "remove_labels": False,
    "append_version": True,
    "compact": False,
    "tail_call_optimization": False,
    "use_push_pop_functions": False,
}


def compile_src(src, opts=None):
    """compile_code with options given as a dict of overrides over the API defaults
    (append_version defaults to False here)."""
    comp = load()
    o = {"append_version": False}
    o.update(opts or {})
    if isinstance(src, dict):
        src = dict(src)
    return comp.compile_code(src, comp.CompileOptions(**o))
