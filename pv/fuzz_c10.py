"""Coverage-guided campaign for C10 (thorough tier): atheris/libFuzzer drives compile_code in-process.

    python -m pv.fuzz_c10 <outdir> <runs> <seed> <mode>      mode: tokens | hypothesis

* tokens: every input byte selects one token of a dictionary of dialect keywords, names of the symbol
  table, operators, literals and NEWLINE+indentation marks (the first byte selects the option vector), so that
  libFuzzer's mutations are insertions/deletions/copies of *tokens* and its coverage feedback (the
  transpiler's passes are instrumented, the generated tables are not) steers towards inputs that get deeper
  into the passes than the parser.
* hypothesis: the byte string is the choice sequence of C10's own Hypothesis strategy
  (`fuzz_one_input`), i.e. the same structured families, but selected by coverage instead of at random.

The oracle is C10's `check_case` (returns, raises nothing, well-formed verdict, position inside the text, no
child left).  The first violation is written to <outdir>/violation.json and ends the campaign; a summary
(<outdir>/summary.json) is rewritten every 50 executions because libFuzzer never returns to Python.
"""
import collections
import json
import os
import sys

ROOT = os.path.dirname(os.path.dirname(os.path.abspath(__file__)))
sys.path.insert(0, os.path.join(ROOT, ".deps"))

TOKENS = (
    ["\n", "\n    ", "\n        ", "\n            ", " ", "  "]
    + ["def", "return", "if", "elif", "else", "while", "for", "in", "range", "break", "continue", "pass", "global", "not", "and", "or",
       "True", "False", "None", "lambda", "class", "import", "from", "with", "try", "except", "yield", "is"]
    + ["(", ")", "[", "]", ":", ",", ".", "=", "+", "-", "*", "/", "%", "**", "//", "<", ">", "<=", ">=", "==", "!=", "+=", "-=", "*=", "&", "|", "^", "~",
       "<<", ">>", "@", "#", '"', "'", "{", "}", ";", "\\"]
    + ["0", "1", "2", "3", "7", "63", "0.5", "1e3", "-1", "0x1F", "1e999", "273.15"]
    + ["f", "g", "h", "a", "b", "c", "x", "y", "n", "i", "k", "tbl", "dev", "m"]
    + ["db", "d0", "d1", "d5", "stack", "Setting", "On", "Temperature", "Pressure", "Mode", "Activate", "Open", "Ratio", "Average", "Sum", "Minimum",
       "Maximum", "Occupied", "Quantity", "ArcFurnace", "Device", "Devices", "Stack", "ConsoleLED1x2", "GasSensors", "Batteries", "ref_id", "HASH", "STR",
       "LogicType", "DisplayMode", "String", "yield_", "sleep", "hcf", "sqrt", "min", "max", "abs", "floor", "select", "push", "pop", "peek", "sp", "ra",
       "constexpr", "emit_code", "s", "l", "lb", "sb", "move", "alias", "define", "library", "__name__", '"__main__"', "# pytrapic:", "compact,", "no-", "(note)",
       "inline_functions", "tail_call_optimization", "functions_using_push_pop", "remove_labels", '"StructureBattery"', '"Hi"', "len", "print", "open", "eval"]
)
assert len(TOKENS) <= 256, len(TOKENS)
HDR = "from stationeers_pytrapic.symbols import *\n"
OPTION_NAMES = None


def main():
    outdir, runs, seed, mode = sys.argv[1], int(sys.argv[2]), int(sys.argv[3]), sys.argv[4]
    os.makedirs(outdir, exist_ok=True)
    corpus = os.path.join(outdir, "corpus")
    os.makedirs(corpus, exist_ok=True)
    import atheris

    # the transpiler is imported here for the first time in this process, under the instrumenting import hook (the
    # harness modules import parts of it, so they are imported inside the block too; only the named modules are instrumented)
    with atheris.instrument_imports(include=["stationeers_pytrapic.compiler", "stationeers_pytrapic.compile_pass", "stationeers_pytrapic.generate_code",
                                             "stationeers_pytrapic.register_assignment", "stationeers_pytrapic.utils", "stationeers_pytrapic.types",
                                             "stationeers_pytrapic.intrinsics", "stationeers_pytrapic.parse_lua"]):
        from pv import repo
        from pv.gen import options as gopt
        from pv.props import c10
        from pv.runner import Violation

        repo.load()
    state = {"n": 0, "classes": collections.Counter(), "nontrivial": set(), "samples": []}

    class S:  # the subset of runner.Stats that check_case uses
        def __init__(self):
            self.evaluations = 0
            self.classes = state["classes"]
            self.nontrivial = state["nontrivial"]
            self.notes = collections.Counter()

        def sample(self, obj, limit=4):
            if len(state["samples"]) < limit:
                state["samples"].append(obj)

    stats = S()

    def summary():
        with open(os.path.join(outdir, "summary.json.tmp"), "w") as f:
            json.dump({"mode": mode, "executions": state["n"], "evaluations": stats.evaluations, "classes": dict(state["classes"]),
                       "nontrivial": sorted(state["nontrivial"]), "samples": state["samples"], "notes": dict(stats.notes)}, f)
        os.replace(os.path.join(outdir, "summary.json.tmp"), os.path.join(outdir, "summary.json"))

    def judge(case):
        state["n"] += 1
        # the case about to run: if the transpiler never comes back (a hang inside C code cannot be interrupted from
        # Python) the parent process finds it here when its own deadline runs out
        with open(os.path.join(outdir, "current.json"), "w") as f:
            json.dump(case, f, default=str)
        try:
            c10.check_case(case, stats)
        except Violation as v:
            known = c10_known()
            if v.signature in known:
                state["classes"]["known:" + known[v.signature]] += 1
            else:
                with open(os.path.join(outdir, "violation.json"), "w") as f:
                    json.dump({"signature": v.signature, "detail": v.detail, "case": case}, f, default=str)
                summary()
                os._exit(0)  # the parent reads violation.json; libFuzzer's own crash report is of no use here
        if state["n"] % 50 == 0:
            summary()

    _known = {}

    def c10_known():
        if not _known:
            from pv.runner import load_known_signatures

            _known.update(load_known_signatures("C10"))
            _known["\0"] = ""
        return _known

    def one_tokens(data):
        if len(data) < 2:
            return
        bits = data[0]
        how = (None, "dict", "dataclass")[data[1] % 3]
        text = "".join(t if t[0] == "\n" else t + " " for t in (TOKENS[b % len(TOKENS)] for b in data[2:]))
        src = (HDR if bits & 1 or how is None else "") + text + "\n"
        opts = None if how is None else {"as": how, "values": gopt.vector_from_bits(bits)}
        judge({"src": src, "opts": opts, "family": "atheris-tokens"})

    argv = [sys.argv[0], corpus, f"-runs={runs}", f"-seed={seed or 1}", "-max_len=%d" % (160 if mode == "tokens" else 4096), "-timeout=600", "-rss_limit_mb=0", "-print_final_stats=1",
            "-handle_alrm=0", "-len_control=20"]
    if mode == "tokens":
        # a few valid starting points (token indices) so that the first generations are not all syntax errors
        I1, I2 = "\n    ", "\n        "
        seeds = [["db", ".", "Setting", "=", "d0", ".", "Temperature", "+", "1"],
                 ["def", "f", "(", "a", ")", ":", I1, "return", "a", "*", "2", "\n", "db", ".", "Setting", "=", "f", "(", "d0", ".", "On", ")"],
                 ["while", "True", ":", I1, "yield_", "(", ")", I1, "if", "d0", ".", "On", ":", I2, "break"],
                 ["for", "i", "in", "range", "(", "3", ")", ":", I1, "stack", "[", "i", "]", "=", "i"],
                 ["tbl", "=", "[", "1", ",", "2", ",", "3", "]", "\n", "db", ".", "Setting", "=", "tbl", "[", "d0", ".", "Mode", "]"],
                 ["@", "constexpr", "\n", "def", "g", "(", "a", ")", ":", I1, "return", "a", "+", "1", "\n", "db", ".", "Setting", "=", "g", "(", "2", ")"]]
        for j, toks in enumerate(seeds):
            with open(os.path.join(corpus, f"seed{j}"), "wb") as f:
                f.write(bytes([1, 0] + [TOKENS.index(t) for t in toks]))
        # libFuzzer dictionary of token n-grams (each entry is inserted / overwritten as a unit): statement skeletons
        # and directive fragments, so that a mutation can add a whole construct instead of one token
        grams = [["def", "f", "(", "a", ")", ":", I1], ["while", "True", ":", I1], ["if", "a", ">", "1", ":", I2], ["else", ":", I2], ["return", "a"],
                 ["for", "i", "in", "range", "(", "3", ")", ":", I1], ["for", "x", "in", "[", "1", ",", "2", "]", ":", I1], ["f", "(", "1", ")", "\n"],
                 ["db", ".", "Setting", "="], ["d0", ".", "Setting"], ["=", "f", "(", "d0", ".", "On", ")"], ["@", "constexpr", "\n"], ["global", "x", I1],
                 ["break", "\n"], ["continue", "\n"], ["# pytrapic:", "compact,"], ["# pytrapic:", "no-"], ["no-", "\n"], ["no-", "inline_functions", "\n"],
                 ["# pytrapic:", "tail_call_optimization", "\n"], ["from", "library", "import", "m", "\n"], ["stack", "[", "i", "]"], ["tbl", "[", "d0", ".", "Mode", "]"]]
        dpath = os.path.join(outdir, "tokens.dict")
        with open(dpath, "w") as f:
            for g in grams:
                f.write('"' + "".join("\\x%02x" % TOKENS.index(t) for t in g) + '"\n')
        argv.append("-dict=" + dpath)
        atheris.Setup(argv, one_tokens)
    else:
        from hypothesis import HealthCheck, given, settings

        @settings(database=None, deadline=None, suppress_health_check=list(HealthCheck))
        @given(c10.cases())
        def t(case):
            judge(case)

        atheris.Setup(argv, t.hypothesis.fuzz_one_input)
    summary()
    atheris.Fuzz()


if __name__ == "__main__":
    main()
