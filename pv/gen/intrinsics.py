"""Build one call per intrinsic wrapper with distinguishable, type-correct marker arguments, from the
wrapper's signature in intrinsics.py (parsed with ast, not imported)."""
import ast
import os

from .. import repo

HDR = "from stationeers_pytrapic.symbols import *\n"


def wrappers():
    path = os.path.join(repo.SRC, "stationeers_pytrapic", "intrinsics.py")
    tree = ast.parse(open(path).read())
    out = []
    for n in tree.body:
        if not isinstance(n, ast.FunctionDef):
            continue
        ret = n.body[-1]
        if not (isinstance(ret, ast.Return) and isinstance(ret.value, ast.Call) and getattr(ret.value.func, "id", "") == "_IC10"):
            continue
        call = ret.value
        opcode = call.args[0].value
        declared_out = not (isinstance(call.args[2], ast.Constant) and call.args[2].value is None)
        params = [(a.arg, ast.unparse(a.annotation) if a.annotation else "") for a in n.args.args]
        out.append({"name": n.name, "opcode": opcode, "declared_output": declared_out, "params": params})
    return out


def build_call(w):
    """-> (source lines, expected operand tokens (verbose mode), uses_registers)"""
    pre, args, expect = [], [], []
    reg_i = 0
    for k, (pname, ann) in enumerate(w["params"]):
        if ann == "str":
            args.append(f'"nm{k}"')
            expect.append(f"nm{k}")
        elif ann == "_Register | _Device" or ann == "_Device":
            args.append(f"d{4 + (k % 2)}")
            expect.append(f"d{4 + (k % 2)}")
        elif ann.startswith("_Device |"):
            args.append(f"d{4 + (k % 2)}")
            expect.append(f"d{4 + (k % 2)}")
        elif ann.startswith("LogicType"):
            args.append("LogicType.Temperature")
            expect.append("Temperature")
        elif ann.startswith("LogicSlotType"):
            args.append("LogicSlotType.Quantity")
            expect.append("Quantity")
        elif ann.startswith("LogicBatchMethod"):
            args.append("LogicBatchMethod.Sum")
            expect.append("Sum")
        elif ann.startswith("LogicReagentMode"):
            args.append("LogicReagentMode.Required")
            expect.append(("LogicReagentMode.Required", "Required"))
        elif ann.startswith("_deviceHash"):
            args.append(str(1000 + k))
            expect.append(str(1000 + k))
        elif ann in ("int",):
            args.append(str(3 + k))
            expect.append(str(3 + k))
        else:
            # numeric value: a register loaded from marker device dK (never constant-folded)
            pre.append(f"m{reg_i} = d{reg_i}.Setting")
            args.append(f"m{reg_i}")
            expect.append(("REG", reg_i))
            reg_i += 1
    return pre, args, expect
