"""Generator of call-graph shaped programs for C06/C04: acyclic graphs of depth <= 4, arities 0..4,
every placement of `return`, argument expressions asymmetric in the parameters."""
from hypothesis import strategies as st

from .programs import HDR, pool_for

READS = ["d0.Setting", "d1.Setting", "d2.Setting", "d0.On", "db.Setting", "d3.Mode"]
OUTS = ["db.Setting", "d0.Setting", "d1.On", "d2.Setting", "d3.Setting", "d4.Mode"]
CMP = ["<", "<=", ">", ">=", "==", "!="]
CONST = ["0", "1", "2", "3", "5", "7", "10", "0.5", "-1", "-4"]


class G:
    def __init__(self, draw, max_funcs=5, max_arity=3, with_globals=True, list_loops=False):
        self.draw = draw
        self.max_funcs, self.max_arity = max_funcs, max_arity
        self.with_globals = with_globals
        self.funcs = []
        self.features = set()
        self.consts = set()
        self.uid = 0

    def n(self, lo, hi):
        return self.draw(st.integers(lo, hi))

    def choice(self, seq):
        return seq[self.n(0, len(seq) - 1)]

    def chance(self, pct):
        return self.n(0, 99) < pct

    def const(self):
        c = self.choice(CONST)
        self.consts.add(float(c))
        return c

    def mix(self, names):
        """asymmetric linear mix p0 - 2*p1 + 4*p2 ... (+ a read) so that permuted arguments are visible"""
        terms = []
        coef = 1
        for i, nm in enumerate(names):
            terms.append(nm if coef == 1 else f"{coef} * {nm}")
            coef *= -2 if i % 2 == 0 else 2
        if not terms or self.chance(50):
            terms.append(self.choice(READS))
        if self.chance(40):
            terms.append(self.const())
        out = terms[0]
        for t in terms[1:]:
            out = f"{out} + {t}" if not t.startswith("-") else f"{out} - {t[1:]}"
        return out

    def arg(self, names, callees=(), depth=0):
        inner = [g for g in callees if g["has_ret"]]
        if inner and depth < 2 and self.chance(22):
            # a call as an argument (any position): the outer call's other arguments must survive it
            g = self.choice(inner)
            g["calls"] += 1
            self.features.add("call-as-argument")
            self._arg_depth = max(getattr(self, "_arg_depth", 0), g["depth"] + 1)
            return f"{g['name']}({', '.join(self.arg(names, callees, depth + 1) for _ in range(g['npar']))})"
        k = self.n(0, 5)
        if k == 0:
            return self.const()
        if k == 1:
            return self.choice(READS)
        if k == 2 and names:
            return f"({self.choice(names)} + {self.const()})"
        if k == 3 and names:
            return f"({self.choice(names)} * 2)"
        # `+ 0`: never a bare name (an un-overwritten parameter of an inlined callee would alias it, D5)
        return f"({self.mix(names[: self.n(0, len(names))])} + 0)"

    def call(self, f, names, callees=()):
        f["calls"] += 1
        return f"{f['name']}({', '.join(self.arg(names, callees) for _ in range(f['npar']))})"

    def function(self, i, globs):
        name = f"f{i}"
        npar = self.n(0, self.max_arity)
        has_ret = self.chance(60)
        params = [f"p{i}{j}" for j in range(npar)]
        L = [f"def {name}({', '.join(params)}):"]
        names = list(params)
        wglob = None
        if globs and self.chance(35):
            wglob = self.choice(globs)
            L.append(f"    global {wglob}")
            self.features.add("global-write")
        if self.chance(6):
            # a guard whose test is a compile-time constant: the function starts with an unconditional jump to its
            # end (or with nothing at all), in front of whatever the calling convention puts there
            self.features.add("constant-guard-first")
            taken = self.chance(60)
            L.append(f"    if {self.choice(['3 > 2', '1 == 1', '5 >= 5']) if taken else self.choice(['1 > 2', '2 == 3'])}:")
            L.append(f"        return {self.mix(params)}" if has_ret else "        return")
        self.uid += 1
        t = f"t{self.uid}"
        m0 = self.mix(params)
        L.append(f"    {t} = {m0}" if not m0.isidentifier() else f"    {t} = {m0} + 0")
        names.append(t)
        # statements
        nst = self.n(1, 4)
        callees = self.funcs[:]  # only earlier functions: acyclic
        depth = 0
        for _ in range(nst):
            k = self.n(0, 9)
            if k <= 2 and callees:
                f = self.choice(callees)
                depth = max(depth, f["depth"] + 1)
                c = self.call(f, names, callees)
                depth = max(depth, getattr(self, "_arg_depth", 0))
                if f["has_ret"]:
                    kk = self.n(0, 2)
                    if kk == 0:
                        self.uid += 1
                        v = f"q{self.uid}"
                        L.append(f"    {v} = {c}")
                        names.append(v)
                    elif kk == 1:
                        L.append(f"    {self.choice(OUTS)} = {c} + {self.choice(names)}")
                        self.features.add("call-in-expr")
                    else:
                        L.append(f"    {t} = {t} + {c}")
                        self.features.add("call-result-accumulated")
                else:
                    L.append(f"    {c}")
            elif k == 3:
                ret = f"return {self.mix(names[-2:])}" if has_ret else "return"
                L.append(f"    if {self.choice(names)} {self.choice(CMP)} {self.choice(READS + CONST)}:")
                if self.chance(50):
                    L.append(f"        {self.choice(OUTS)} = {self.choice(names)}")
                L.append(f"        {ret}")
                self.features.add("early-return-if")
            elif k == 4:
                self.uid += 1
                iv = f"i{self.uid}"
                ret = f"return {iv} + {self.choice(names)}" if has_ret else "return"
                L.append(f"    for {iv} in range({self.choice(['2', '3', '4'])}):")
                L.append(f"        {self.choice(OUTS)} = {iv} + {self.choice(names)}")
                L.append(f"        if {self.choice(READS)} {self.choice(CMP)} {iv}:")
                L.append(f"            {ret}")
                self.features.add("early-return-in-loop")
            elif k == 5 and wglob:
                L.append(f"    {wglob} = {wglob} + {self.choice(names)}")
            elif k == 6 and callees and has_ret is False:
                # nested call as an argument of another call
                f = self.choice(callees)
                inner = [g for g in callees if g["has_ret"]]
                if inner and f["npar"] > 0:
                    g = self.choice(inner)
                    depth = max(depth, f["depth"] + 1, g["depth"] + 1)
                    g["calls"] += 1
                    f["calls"] += 1
                    args = [self.arg(names) for _ in range(f["npar"])]
                    args[self.n(0, f["npar"] - 1)] = f"{g['name']}({', '.join(self.arg(names) for _ in range(g['npar']))})"
                    L.append(f"    {f['name']}({', '.join(args)})")
                    self.features.add("call-as-argument")
                else:
                    L.append(f"    {self.choice(OUTS)} = {self.mix(names[-2:])}")
            else:
                L.append(f"    {self.choice(OUTS)} = {self.mix(names[-3:])}")
        tail = None
        if has_ret and self.chance(25):
            # returns close the branches of a trailing if/else (no statement after it)
            self.features.add("ends-in-if-else-returns")
            L.append(f"    if {self.choice(names)} {self.choice(CMP)} {self.choice(READS + CONST)}:")
            if callees and self.chance(50):
                f = self.choice(callees)
                depth = max(depth, f["depth"] + 1)
                c = self.call(f, names, callees)
                L.append(f"        {t} = {t} + {c}" if f["has_ret"] else f"        {c}")
            L.append(f"        return {self.mix(names[-2:])}")
            L.append("    else:")
            L.append(f"        {self.choice(OUTS)} = {self.choice(names)}")
            L.append(f"        return {self.mix(names[-3:])}")
        elif has_ret:
            if callees and self.chance(25):
                f = self.choice([g for g in callees if g["has_ret"]] or callees)
                if f["has_ret"]:
                    depth = max(depth, f["depth"] + 1)
                    L.append(f"    return {self.call(f, names, callees)}")
                    self.features.add("return-of-call")
                else:
                    L.append(f"    return {self.mix(names[-3:])}")
            else:
                L.append(f"    return {self.mix(names[-3:])}")
        elif callees and self.chance(35):
            f = self.choice([g for g in callees if not g["has_ret"]] or callees)
            depth = max(depth, f["depth"] + 1)
            L.append(f"    {self.call(f, names, callees)}")
            self.features.add("ends-in-call")
        depth = max(depth, getattr(self, "_arg_depth", 0))
        self._arg_depth = 0
        self.funcs.append({"name": name, "npar": npar, "has_ret": has_ret, "calls": 0, "depth": depth})
        return L

    def program(self, endless=True):
        L = [HDR.rstrip("\n")]
        globs = []
        if self.with_globals:
            for i in range(self.n(0, 2)):
                globs.append(f"g{i}")
                L.append(f"g{i} = {self.choice(READS)}")
        nf = self.n(1, self.max_funcs)
        for i in range(nf):
            L += self.function(i, globs)
        body = []
        top = self.funcs[-1]
        ncalls = self.n(1, 4)
        for k in range(ncalls):
            f = top if k == 0 else self.choice(self.funcs)
            c = self.call(f, globs, self.funcs)
            if f["has_ret"]:
                body.append(f"{self.choice(OUTS)} = {c}")
            else:
                body.append(c)
        if self.chance(50):
            # further call sites for callers and callees alike: a function with two call sites is never
            # inlined, so chains of real calls (dynamic depth >= 2) survive the default options
            self.features.add("several-call-sites")
            for f in self.funcs:
                if self.chance(60):
                    c = self.call(f, globs, self.funcs)
                    body.append(f"{self.choice(OUTS)} = {c}" if f["has_ret"] else c)
        for g in globs:
            if self.chance(50):
                body.append(f"d5.Setting = {g}")
        if endless:
            L.append("while True:")
            L += ["    " + b for b in body]
            L.append("    yield_()")
        else:
            L += body
        return "\n".join(L) + "\n"


@st.composite
def tailcall_cases(draw, nenv=2):
    """small chains whose functions end in a statement call (the shape the tail-call rewrite acts on):
    callee and caller each called once or several times, with or without arguments; every function
    satisfies the F-D11 carve-out (no other user call, no return statement, callee without result)"""
    n = draw(st.integers(2, 4))
    L = [HDR.rstrip("\n")]
    fs = []
    for i in range(n):
        npar = draw(st.integers(0, 2))
        ps = [f"p{i}{j}" for j in range(npar)]
        L.append(f"def t{i}({', '.join(ps)}):")
        for k in range(draw(st.integers(1, 2))):
            src = draw(st.sampled_from(ps + READS + ["1", "7"]))
            L.append(f"    {OUTS[(i + k) % len(OUTS)]} = {src} + {10 * i + k}")
        if fs and draw(st.integers(0, 3)) > 0:
            g = fs[draw(st.integers(0, len(fs) - 1))]
            args = ", ".join(draw(st.sampled_from([f"({p} + 1)" for p in ps] + ["2", "d0.Setting", "(d1.On * 2)"])) for _ in range(g["npar"]))
            L.append(f"    {g['name']}({args})")
            g["calls"] += 1
        fs.append({"name": f"t{i}", "npar": npar, "calls": 0})
    L.append("while True:")
    for f in fs:
        want = draw(st.integers(0, 2))
        if f is fs[-1]:
            want = max(want, 1)
        for _ in range(want):
            args = ", ".join(draw(st.sampled_from(["1", "3", "d2.Setting"])) for _ in range(f["npar"]))
            L.append(f"    {f['name']}({args})")
    L.append("    yield_()")
    return {"src": {"": "\n".join(L) + "\n"}, "env_seeds": [draw(st.integers(0, 2**31 - 1)) for _ in range(nenv)],
            "pool": pool_for([]), "features": ["tail-call-chain"]}


@st.composite
def chain_cases(draw, nenv=2):
    """deep chains of real calls: level i always calls level i-1 (from one or two sites, so that it is never inlined
    under any option vector), keeps a value of its own alive across the call and uses the result afterwards; slim
    functions (<= 2 parameters, one or two temporaries) so that 3-5 levels fit into the register file.  Early returns
    in front of and behind the inner call; results and bare calls mixed."""
    n = draw(st.integers(3, 5))
    L = [HDR.rstrip("\n")]
    fs = []
    feats = {"deep-chain"}
    consts = set()
    for i in range(n):
        npar = draw(st.integers(0 if i else 1, 2))
        has_ret = draw(st.integers(0, 9)) < 7
        ps = [f"p{i}{j}" for j in range(npar)]
        L.append(f"def c{i}({', '.join(ps)}):")
        t = f"t{i}"
        base = " - 2 * ".join(ps) if ps else draw(st.sampled_from(READS))
        L.append(f"    {t} = {base} + {draw(st.sampled_from(READS + ['1', '3']))}")
        if draw(st.integers(0, 9)) < 4:
            feats.add("early-return-before-inner-call")
            c = draw(st.sampled_from(CONST)); consts.add(float(c))
            L.append(f"    if {t} {draw(st.sampled_from(CMP))} {draw(st.sampled_from(READS + [c]))}:")
            L.append(f"        {draw(st.sampled_from(OUTS))} = {t} + {i}")
            L.append(f"        return {t} * 2" if has_ret else "        return")
        if fs:
            g = fs[-1]
            sites = draw(st.integers(1, 2))
            for k in range(sites):
                args = ", ".join(draw(st.sampled_from([f"({t} + {k + 1})", f"({t} * 2)"] + [f"({p} - 1)" for p in ps] + READS[:3] + ["2"])) for _ in range(g["npar"]))
                g["calls"] += 1
                if g["has_ret"]:
                    how = draw(st.integers(0, 2))
                    if how == 0:
                        L.append(f"    {t} = {t} - 3 * {g['name']}({args})")
                    elif how == 1:
                        L.append(f"    {draw(st.sampled_from(OUTS))} = {g['name']}({args}) + {t}")
                    else:
                        L.append(f"    v{i}{k} = {g['name']}({args})")
                        L.append(f"    {draw(st.sampled_from(OUTS))} = v{i}{k} - {t}")
                else:
                    L.append(f"    {g['name']}({args})")
                    L.append(f"    {draw(st.sampled_from(OUTS))} = {t} + {10 * i + k}")
                if k == 0 and draw(st.integers(0, 9)) < 3:
                    feats.add("early-return-after-inner-call")
                    L.append(f"    if {draw(st.sampled_from(READS))} {draw(st.sampled_from(CMP))} {t}:")
                    L.append(f"        return {t} + 1" if has_ret else "        return")
        else:
            L.append(f"    {draw(st.sampled_from(OUTS))} = {t} * 2 + {draw(st.sampled_from(READS))}")
        if has_ret:
            L.append(f"    return {t} - {i + 1}")
        fs.append({"name": f"c{i}", "npar": npar, "has_ret": has_ret, "calls": 0})
    L.append("while True:")
    top = fs[-1]
    for k in range(draw(st.integers(1, 2))):
        args = ", ".join(draw(st.sampled_from(READS[:4] + ["1", "4", "-2"])) for _ in range(top["npar"]))
        L.append(f"    {OUTS[k]} = {top['name']}({args})" if top["has_ret"] else f"    {top['name']}({args})")
    for f in fs[:-1]:
        if f["calls"] < 2 or draw(st.integers(0, 3)) == 0:
            # a second call site in the main code for levels called only once so far: keeps them out of line
            args = ", ".join(draw(st.sampled_from(READS[:4] + ["1", "5"])) for _ in range(f["npar"]))
            L.append(f"    d5.Setting = {f['name']}({args})" if f["has_ret"] else f"    {f['name']}({args})")
    L.append("    yield_()")
    return {"src": {"": "\n".join(L) + "\n"}, "env_seeds": [draw(st.integers(0, 2**31 - 1)) for _ in range(nenv)],
            "pool": pool_for(consts), "features": sorted(feats), "max_static_depth": n}


@st.composite
def callgraph_cases(draw, nenv=2, **kw):
    g = G(draw, **kw)
    src = g.program()
    return {
        "src": {"": src},
        "env_seeds": [draw(st.integers(0, 2**31 - 1)) for _ in range(nenv)],
        "pool": pool_for(g.consts),
        "features": sorted(g.features),
        "max_static_depth": max(f["depth"] for f in g.funcs) + 1,
    }
