"""Adversarial identifier strategy for function / module names (C05)."""
import keyword
import re

from hypothesis import strategies as st

from .. import repo, tables

POOL = [
    "a", "a_b", "a_b_c", "ab", "a_", "b", "b_a", "f", "f_x", "fx", "x", "xe", "en", "upd", "upd_disp", "upd_disp_2",
    "main", "mainloop", "init", "init_", "init_all", "r18", "r1x", "jalx", "jx", "lbfor", "lbx", "lb", "l_b", "moves",
    "adder", "selec", "dbx", "d9", "sp_", "ra_", "ra1", "yield_x", "hashit", "num", "n1", "n_1", "n_1_", "loop", "loops",
    "do_it", "doit", "do", "do_", "very_long_function_name_with_many_parts", "Zz", "Q", "q_q", "t", "tt", "ttt", "set_",
    "on_", "k", "k0", "k_0", "e", "e_nd", "endx", "xend_", "w_end_x",
]
LABELISH = re.compile(r"^lb[a-z.]*\d+$")


def forbidden():
    repo.load()
    from stationeers_pytrapic import symbols

    plain, qual = tables.enum_tables()
    bad = set(symbols.__dict__) | set(keyword.kwlist)
    for members in plain.values():
        bad |= set(members)
    return bad


_bad = None


def ok_name(n):
    global _bad
    if _bad is None:
        _bad = forbidden()
    return n not in _bad and not LABELISH.match(n) and not n.startswith("__")


def label_of(qualified):
    return qualified.replace("_", ".")


def repair(names):
    """make the label sets {label, label+'end'} of all names pairwise distinct by appending digits
    (constructive exclusion of the D13 collisions); returns the repaired list"""
    out, used = [], set()
    for n in names:
        k = 0
        cand = n
        while True:
            lab = label_of(cand)
            if ok_name(cand.split(".")[-1]) and lab not in used and lab + "end" not in used and not any(u == lab + "end" or u + "end" == lab for u in used):
                break
            k += 1
            cand = n + "q" * k
        used.add(label_of(cand))
        used.add(label_of(cand) + "end")
        out.append(cand)
    return out


@st.composite
def names(draw, n):
    raw = [POOL[draw(st.integers(0, len(POOL) - 1))] for _ in range(n)]
    return raw
