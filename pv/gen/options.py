"""option vectors and `# pytrapic:` spellings"""
from hypothesis import strategies as st

from ..repo import DEFAULTS, OPTION_NAMES


def vector_from_bits(bits):
    return {n: bool(bits >> i & 1) for i, n in enumerate(OPTION_NAMES)}


def overrides(vec):
    """only the entries that differ from the API defaults"""
    return {k: v for k, v in vec.items() if DEFAULTS[k] != v}


def full(opts):
    v = dict(DEFAULTS)
    v.update(opts)
    return v


vectors = st.integers(0, 255).map(vector_from_bits)


def pragma_line(vec, draw=None):
    """one directive line that sets every option of vec explicitly"""
    items = []
    for k in OPTION_NAMES:
        name = k
        if draw is not None and draw(st.booleans()):
            name = name.replace("_", "-")
        if not vec[k]:
            name = ("no-" if draw is None or draw(st.booleans()) else "no_") + name
        items.append(name)
    return "# pytrapic: " + ", ".join(items)
