"""E4 - constructive generator of well-formed programs of the PyTrapIC dialect.

Programs are built statement by statement through Hypothesis draws (no filtering).  The shapes
that trigger *open* known findings are excluded by construction (see DESIGN 0.7 / section 1):
  D1  main code that can terminate while a function is emitted   -> `endless` main loop
  D3  loop target bound before the loop                          -> loop targets are fresh
  D5  bare-name copies of variables that are written later       -> `name + 0`
  D20 calls / list loops inside a for-over-list body             -> body kept call-free
  D21 effects/calls inside conditional-expression arms, and/or   -> arms are pure, call-free
  D25 functions returning a value on some paths only             -> all paths or none
  D29 constant lists of length >= 6 with a dynamic index         -> length <= 5
"""
from hypothesis import strategies as st

HDR = "from stationeers_pytrapic.symbols import *\n"

CONSTS = ["0", "1", "2", "3", "5", "10", "0.5", "0.25", "-1", "7", "100", "2.5", "-3", "4", "8", "1.5"]
POOL_BASE = [0.0, 1.0, 2.0, 3.0, -1.0, 0.5, 5.0, 10.0, 100.0, -7.0, 0.25, 4.0, 6.0, 7.0, 20.0, 1000.0,
             2.5, -3.0, 8.0, 1.5, -0.5, 9.0, 11.0, 99.0, 101.0]

READS = [
    "d0.Setting", "d1.Setting", "d0.On", "db.Setting", "d2.Mode", "d1.Temperature",
    "Batteries.Ratio.Average", "Batteries.Maximum.Charge", 'GasSensors["A"].Pressure.Maximum',
    'GasSensors["B b"].Average.Temperature', "furn.Import.Occupied", "furn.slot1.Quantity",
    "furn.RecipeHash", "st3[2]", "st3[7]", "ArcFurnaces.Export.Quantity.Sum", "heater.On",
    'WallHeaters["H 1"].slot0.Occupied.Maximum', "refdev.Setting", "stref[1]", "lamp.Setting",
    "heater.DataDisk.Occupied", "furn.Reagents", "allbat.Charge.Minimum",
    'GasSensors["Tank: #2"].Pressure.Minimum',  # ':' and '#' in a device name are text, not label / comment
]
OWN_STACK_READS = ["stack[3]", "stack[4]", "stack[17]"]
WRITES = [
    "db.Setting", "d0.On", "d1.Setting", "Batteries.Lock", 'GrowLights["A"].On', "furn.Activate",
    "furn.Export.Quantity", "st3[1]", "db.Mode", "heater.On", "WallHeaters.On", "ArcFurnaces.Import.Occupied",
    "d2.Setting", "refdev.Mode", "stref[5]", "furn.slot0.Damage", "lamp.On", "allbat.On", "furn.Lock",
    'GrowLights["end: #1"].Lock',
]
OWN_STACK_WRITES = ["stack[3]", "stack[4]", "stack[17]"]

PRELUDE = [
    "furn = ArcFurnace(d3)",
    "st3 = Stack(d4)",
    "heater = WallHeater(d5)",
    "refdev = Device(ref_id=1234)",
    "stref = Stack(ref_id=5678)",
    "lamp = Device(d2)",
    'allbat = Devices(HASH("StructureBattery"))',
]


class Cfg:
    def __init__(self, **kw):
        self.max_funcs = 3
        self.max_params = 3
        self.max_depth = 3
        self.main_stmts = 2
        self.loop_stmts = 3
        self.func_stmts = 3
        self.own_stack = True
        self.forlist = True
        self.lists = True
        self.calls_in_expr = True
        self.early_return = True
        self.breaks = True
        self.globals_ = True
        self.endless = True  # main ends in `while True:` (needed whenever functions may be emitted)
        self.bitops = True
        self.intrinsics = True
        self.min_funcs = 0
        self.call_twice_pct = 0  # chance that main gets extra calls so that a function is called at least twice (never inlined)
        self.terminating_main = False
        self.terminating_with_funcs = False
        self.call_bias = 0  # extra percentage of statements that are calls
        self.tail_call_bias = 0  # percentage of functions that end in a statement call
        self.multiline = True
        self.multiline_pct = 12
        self.nested_arg_pct = 30
        self.no_user_push = False
        self.nested_defs = False  # nested function definitions: open finding F-D36 (register clash)
        self.d5_args = False  # pass bare names of writable globals as arguments (open finding F-D5 shape):
        #                       only for oracles that do not compare with the source interpreter
        self.__dict__.update(kw)


class ProgGen:
    def __init__(self, draw, cfg=None):
        self.draw = draw
        self.cfg = cfg or Cfg()
        self.uid = 0
        self.funcs = []  # dicts: name, npar, has_ret
        self.features = set()
        self.ro = set()  # names that must never be assigned (loop counters, single-assignment)
        self.frozen = set()  # names whose value never changes after definition: safe to alias (D5)
        self.intvar_bound = {}
        self.intvars = set()  # names known to hold small non-negative integers (loop counters)
        self.in_pure = 0  # >0 while generating a context that must be effect/call free
        self.no_calls = 0  # >0 inside for-list bodies
        self.cur_func = None
        self.consts_used = set()
        self.named_lists = []  # (name, length) of module-level constant lists / tuples

    # ---------------- draws
    def n(self, lo, hi):
        return self.draw(st.integers(lo, hi))

    def choice(self, seq):
        return seq[self.draw(st.integers(0, len(seq) - 1))]

    def chance(self, pct):
        return self.draw(st.integers(0, 99)) < pct

    def fresh(self, p="v"):
        self.uid += 1
        return f"{p}{self.uid}"

    # ---------------- expressions
    def const(self):
        c = self.choice(CONSTS)
        self.consts_used.add(float(c))
        return c

    def list_items(self, ln):
        """constant list entries; neighbouring entries are often equal (select chains / jump tables
        may merge them) and the first entry often recurs later"""
        items = []
        for j in range(ln):
            if items and self.chance(35):
                self.features.add("list-adjacent-duplicate")
                items.append(items[-1])
            elif len(items) > 1 and self.chance(15):
                items.append(items[0])
            else:
                items.append(self.const())
        return ", ".join(items)

    def read(self):
        if self.cfg.own_stack and self.chance(12):
            self.features.add("own-stack-read")
            return self.choice(OWN_STACK_READS)
        r = self.choice(READS)
        if "[" in r and r[0].isupper():
            self.features.add("named-batch")
        elif r[0].isupper():
            self.features.add("batch")
        if "slot" in r or "Import" in r or "Export" in r:
            self.features.add("slot")
        if r.startswith(("st3", "stref")):
            self.features.add("other-stack")
        if r.startswith(("refdev", "stref")):
            self.features.add("ref-id")
        return r

    def atom(self, vars_):
        k = self.n(0, 99)
        if vars_ and k < 45:
            return self.choice(vars_)
        if k < 70:
            return self.const()
        return self.read()

    def expr(self, vars_, d=0):
        if d > 2 or self.chance(35):
            return self.atom(vars_)
        k = self.n(0, 99)
        if k < 40:
            op = self.choice(["+", "-", "*", "+", "-"])
            if self.cfg.multiline and self.chance(self.cfg.multiline_pct):
                # a statement spanning several lines (continuation inside the parentheses)
                self.features.add("multi-line-expression")
                return f"({self.expr(vars_, d + 1)} {op}\n            {self.expr(vars_, d + 1)})"
            return f"({self.expr(vars_, d + 1)} {op} {self.expr(vars_, d + 1)})"
        if k < 48:
            return f"({self.expr(vars_, d + 1)} / {self.choice(['2', '4', '8', '-2'])})"
        if k < 53:
            self.features.add("mod")
            return f"({self.expr(vars_, d + 1)} % {self.choice(['2', '3', '4', '10'])})"
        if k < 59:
            return f"(-{self.atom(vars_)})"
        if k < 66:
            self.features.add("minmax")
            return f"{self.choice(['max', 'min'])}({self.expr(vars_, d + 1)}, {self.expr(vars_, d + 1)})"
        if k < 70:
            self.features.add("math1")
            return f"{self.choice(['abs', 'floor', 'ceil', 'round', 'trunc'])}({self.expr(vars_, d + 1)})"
        if k < 72 and self.cfg.intrinsics:
            self.features.add("math2")
            inner = self.atom(vars_)
            return self.choice([f"sqrt(abs({inner}))", f"sin({inner})", f"cos({inner})", f"atan2({inner}, 2)", f"log(abs({inner}) + 1)",
                                f"exp(min({inner}, 3))", f"({inner} ** 2)", f"move({inner})", f"add({inner}, 1)", f"lerp({inner}, 10, 0.5)"])
        if k < 79:
            self.features.add("ifexp")
            self.in_pure += 1
            try:
                return f"({self.expr(vars_, d + 1)} if {self.cond(vars_, d + 1)} else {self.expr(vars_, d + 1)})"
            finally:
                self.in_pure -= 1
        if k < 85:
            self.features.add("cmp-value")
            return f"({self.cond(vars_, d + 1)})"
        if k < 88 and self.cfg.lists:
            iv = [v for v in vars_ if v in self.intvars]
            if iv and self.named_lists and self.chance(40):
                nm, ln = self.choice(self.named_lists)
                ok = [v for v in iv if self.intvar_bound[v] <= ln]
                if ok:
                    self.features.add("named-list-dyn-index")
                    return f"{nm}[{self.choice(ok)}]"
            if iv:
                self.features.add("const-list-dyn-index")
                i, hi = self.choice(iv), None
                hi = self.intvar_bound[i]
                # length <= 5 only: longer lists use the jump table of open finding D29
                ln = self.n(hi, 5) if hi <= 5 else None
                if ln is None:
                    self.features.add("excl-D29-long-list")
                if ln:
                    return "[" + self.list_items(ln) + f"][{i}]"
        if k < 90 and self.cfg.intrinsics:
            self.features.add("select")
            self.in_pure += 1
            try:
                return f"select({self.cond(vars_, d + 1)}, {self.expr(vars_, d + 1)}, {self.expr(vars_, d + 1)})"
            finally:
                self.in_pure -= 1
        if k < 92 and self.cfg.bitops:
            iv = [v for v in vars_ if v in self.intvars]
            a = self.choice(iv) if iv else self.choice(["1", "2", "3", "6", "12"])
            self.features.add("bitop")
            return f"({a} {self.choice(['&', '^', '<<', '>>'])} {self.choice(['1', '2', '3'])})"
        cands = [f for f in self.funcs if f["has_ret"]]
        if cands and self.cfg.calls_in_expr and not self.in_pure and not self.no_calls:
            f = self.choice(cands)
            self.features.add("call-in-expr")
            f["calls"] += 1
            args = self.nested_call_arg([self.arg(vars_, d + 1) for _ in range(f["npar"])], vars_)
            return f"{f['name']}({', '.join(args)})"
        return self.atom(vars_)

    def arg(self, vars_, d=0):
        """call argument: never a bare mutable name (D5: an un-overwritten parameter of an inlined callee
        aliases the caller's register)"""
        cands = [f for f in self.funcs if f["has_ret"]]
        if cands and d < 2 and self.cfg.calls_in_expr and not self.in_pure and not self.no_calls and self.chance(15):
            f = self.choice(cands)
            self.features.add("call-as-argument")
            f["calls"] += 1
            return f"{f['name']}({', '.join(self.arg(vars_, d + 1) for _ in range(f['npar']))})"
        e = self.expr(vars_, d)
        if e in vars_ and e not in self.frozen:
            if self.cfg.d5_args:
                self.features.add("d5-arg-shape")
                return e
            self.features.add("excl-D5-arg")
            return f"({e} + 0)"
        return e

    def cmp(self, vars_, d=0):
        return f"{self.expr(vars_, d + 1)} {self.choice(['<', '<=', '>', '>=', '==', '!='])} {self.expr(vars_, d + 1)}"

    def cond(self, vars_, d=0):
        """a boolean-valued, effect-free, call-free expression"""
        self.in_pure += 1
        try:
            k = self.n(0, 99)
            if d > 2 or k < 60:
                return self.cmp(vars_, d)
            if k < 80:
                self.features.add("boolop")
                n = self.n(2, 3)
                op = self.choice(["and", "or"])
                return f" {op} ".join(f"({self.cmp(vars_, d)})" for _ in range(n))
            self.features.add("not")
            return f"not ({self.cmp(vars_, d)})"
        finally:
            self.in_pure -= 1

    def test(self, vars_):
        """an `if` test in one of the forms the transpiler lowers to a branch"""
        k = self.n(0, 99)
        if k < 55:
            return self.cmp(vars_)
        if k < 65:
            self.features.add("if-not")
            return f"not ({self.cmp(vars_)})"
        if k < 73:
            self.features.add("if-boolop")
            return self.cond(vars_, 0)
        if k < 80 and vars_:
            self.features.add("if-name")
            return self.choice(vars_)
        if k < 87:
            self.features.add("if-attr")
            return self.choice(["d0.On", "d1.Setting", "furn.Activate", "db.Setting"])
        if k < 91:
            self.features.add("if-not-attr")
            return "not " + self.choice(["d0.On", "d1.Setting"])
        if k < 95:
            self.features.add("if-sdse")
            return self.choice(["sdse(d1)", "sdns(d2)", "not sdse(d0)"])
        if k < 98:
            self.features.add("if-const")
            return self.choice(["1", "0", "True", "False", "not 0", "2 > 1", "not (2 > 1)", "3 < 1"])
        return self.cmp(vars_)

    # ---------------- statements
    def write(self, vars_):
        if self.cfg.own_stack and self.chance(10):
            self.features.add("own-stack-write")
            tgt = self.choice(OWN_STACK_WRITES)
        else:
            tgt = self.choice(WRITES)
        return f"{tgt} = {self.expr(vars_)}"

    def effect_stmt(self):
        return self.choice(["yield_()", "yield_()", "sleep(1)", "sleep(0.5)", "d4.Mode = DisplayMode.Celsius", "d4.Setting = Color.Blue",
                            "s(d5, LogicType.Setting, 3)", "sb(HASH(\"StructureWallLight\"), LogicType.On, 1)", "pass"])

    def block(self, vars_, ind, depth, in_func, n=None, in_loop=False):
        out = []
        vars_ = list(vars_)
        n = n if n is not None else self.n(1, 2)
        pad = "    " * ind
        for _ in range(n):
            if self.cfg.call_bias and self.funcs and not self.no_calls and self.chance(self.cfg.call_bias):
                out.append(pad + self.call_stmt(vars_))
                continue
            k = self.n(0, 99)
            if k < 22:
                out.append(pad + self.write(vars_))
            elif k < 40:
                wv = [x for x in vars_ if x not in self.ro]
                if wv and self.chance(60):
                    v = self.choice(wv)
                    if self.chance(50):
                        self.features.add("augassign")
                        if self.chance(20):
                            out.append(pad + f"{v} {self.choice(['/=', '%='])} {self.choice(['2', '4', '3'])}")
                        else:
                            out.append(pad + f"{v} {self.choice(['+=', '-=', '*='])} {self.expr(vars_)}")
                    else:
                        e = self.expr(vars_)
                        out.append(pad + f"{v} = {e}")
                else:
                    v = self.fresh()
                    e = self.expr(vars_)
                    if e in vars_:
                        # never a bare copy: the alias shares the source's register and may be written
                        # later (F-D5) or outlive the source's last use (F-D5, second witness)
                        e = f"({e} + 0)"
                        self.features.add("excl-D5-copy")
                    out.append(pad + f"{v} = {e}")
                    if self.chance(50):
                        # stays single-assignment (candidate for constant propagation / aliasing)
                        self.ro.add(v)
                        self.frozen.add(v)
                    vars_.append(v)
            elif k < 54 and depth < self.cfg.max_depth:
                self.features.add("if")
                out.append(pad + f"if {self.test(vars_)}:")
                out += self.block(vars_, ind + 1, depth + 1, in_func, in_loop=in_loop)
                if self.chance(55):
                    if self.chance(30):
                        self.features.add("elif")
                        out.append(pad + f"elif {self.test(vars_)}:")
                        out += self.block(vars_, ind + 1, depth + 1, in_func, in_loop=in_loop)
                    out.append(pad + "else:")
                    out += self.block(vars_, ind + 1, depth + 1, in_func, in_loop=in_loop)
            elif k < 63 and depth < self.cfg.max_depth - 1:
                out += self.for_range(vars_, ind, depth, in_func)
            elif k < 70 and depth < self.cfg.max_depth - 1:
                out += self.while_counter(vars_, ind, depth, in_func)
            elif k < 74 and depth < self.cfg.max_depth - 1:
                out += self.while_read(vars_, ind, depth, in_func)
            elif k < 79 and depth < self.cfg.max_depth - 1 and self.cfg.forlist and not self.no_calls:
                out += self.for_list(vars_, ind, depth, in_func)
            elif k < 92 and self.funcs and not self.no_calls:
                out.append(pad + self.call_stmt(vars_))
            elif k < 96 and in_func and self.cfg.early_return and depth > 0:
                self.features.add("early-return")
                out.append(pad + (f"return {self.expr(vars_)}" if in_func == "ret" else "return"))
                break
            elif k < 98 and in_loop and self.cfg.breaks and depth > 0:
                kw = "break" if self.chance(50) else "continue"
                self.features.add(kw)
                out.append(pad + kw)
                break
            elif k == 99 and self.cfg.own_stack and not self.cfg.no_user_push:
                self.features.add("user-push-pop")
                v = self.fresh()
                out.append(pad + f"push({self.expr(vars_)})")
                out.append(pad + f"{v} = {self.choice(['pop()', 'pop()', 'peek() + pop() * 0'])}")
                out.append(pad + f"{self.choice(WRITES)} = {v} + 1")
            else:
                out.append(pad + self.effect_stmt())
        return out

    def nested_call_arg(self, args, vars_):
        """with some probability replace a non-first argument by a call of a value-returning function that
        takes arguments itself (the outer call's earlier arguments must survive the inner call)"""
        cands = [g for g in self.funcs if g["has_ret"] and g["npar"] >= 1]
        if len(args) >= 2 and cands and not self.in_pure and not self.no_calls and self.chance(self.cfg.nested_arg_pct):
            g = self.choice(cands)
            g["calls"] += 1
            self.features.add("call-as-later-argument")
            args[self.n(1, len(args) - 1)] = f"{g['name']}({', '.join(self.arg(vars_, 2) for _ in range(g['npar']))})"
        return args

    def call_stmt(self, vars_):
        f = self.choice(self.funcs)
        f["calls"] += 1
        args = self.nested_call_arg([self.arg(vars_) for _ in range(f["npar"])], vars_)
        if self.cfg.d5_args and args and f.get("wglobals") and self.chance(45):
            # F-D5 shape on purpose (only for oracles that do not consult the source semantics): a global
            # that the callee itself declares `global`, passed by bare name
            g = self.choice(f["wglobals"])
            if g in vars_:
                args[self.n(0, len(args) - 1)] = g
                self.features.add("d5-arg-shape")
        call = f"{f['name']}({', '.join(args)})"
        if f["has_ret"] and self.chance(75):
            wv = [x for x in vars_ if x not in self.ro]
            k = self.n(0, 2)
            if wv and k == 0:
                self.features.add("call-assign")
                return f"{self.choice(wv)} = {call}"
            if k == 1:
                self.features.add("call-in-binop")
                return f"{self.choice(WRITES)} = {call} + {self.atom(vars_)}"
            return f"{self.choice(WRITES)} = {call}"
        self.features.add("call-stmt")
        return call

    def for_range(self, vars_, ind, depth, in_func):
        pad = "    " * ind
        i = self.fresh("i")
        self.ro.add(i)
        self.features.add("for-range")
        k = self.n(0, 7)
        rng, bound = [("3", 3), ("1, 4", 4), ("0, 6, 2", 6), ("5, 0, -2", 6), ("2", 2), ("4", 4), ("0, 3, 1", 3), ("2, 5", 5)][k]
        if self.chance(15) and vars_ is not None:
            # dynamic upper bound read from a device, clamped to keep the loop short
            rng, bound = f"min(max(d1.Setting, 0), 3)", 4
            self.features.add("for-range-dynamic")
        self.intvars.add(i)
        self.intvar_bound[i] = bound
        out = []
        if self.chance(25):
            # bounds / step held in local variables that are not used after the loop header
            self.features.add("for-range-bound-in-variable")
            nb, ns = self.fresh("n"), self.fresh("s")
            self.ro.update([nb, ns])
            out.append(pad + f"{nb} = min(max({self.choice(['d1.Setting', 'd0.On + 2', '3'])}, 0), 4)")
            if self.chance(30):
                # a negative constant step that reaches the loop header through a name (or a constant list element)
                self.features.add("for-range-named-negative-step")
                out.append(pad + f"{ns} = {self.choice(['-1', '-2', '[2, -1][1]', '0 - 1'])}")
                rng, bound = f"{nb}, 0, {ns}", 5
            elif self.chance(40):
                out.append(pad + f"{ns} = {self.choice(['1', '2', 'd2.On * 0 + 1'])}")
                rng, bound = f"0, {nb}, {ns}", 5
            else:
                rng, bound = nb, 5
            self.intvar_bound[i] = bound
        static_first = {"3": 0, "1, 4": 1, "0, 6, 2": 0, "5, 0, -2": 5, "2": 0, "4": 0, "0, 3, 1": 0, "2, 5": 2}.get(rng)
        out.append(pad + f"for {i} in range({rng}):")
        cap = None
        if static_first is not None and self.chance(30):
            cap = self.loop_capture(out, pad, vars_ + [i], f"{i} == {static_first}")
        if self.cfg.lists and self.intvar_bound[i] <= 5 and self.chance(20):
            # table lookup with every index the loop produces
            self.features.add("list-scan")
            ln = self.n(self.intvar_bound[i], 5)
            out.append(pad + f"    {self.choice(WRITES)} = [{self.list_items(ln)}][{i}]" + (f" + {self.atom(vars_)}" if self.chance(30) else ""))
        out += self.block(vars_ + [i], ind + 1, depth + 1, in_func, in_loop=True)
        if cap:
            out.append(pad + f"{self.choice(WRITES)} = {cap} + {self.atom(vars_)}")
        return out

    def loop_capture(self, out, pad, vars_, first_test):
        """a variable that exists only because the loop body assigns it - on the first iteration only (the loop
        is known to run at least once), or on every iteration - and that is read after the loop; a statement that
        needs temporaries stands in front of the assignment"""
        cap = self.fresh("cap")
        self.ro.add(cap)
        self.features.add("loop-capture")
        # (device reads keep both statements out of the constant folder's reach)
        out.append(pad + "    " + f"{self.choice(WRITES)} = {self.read()} * 2 + {self.expr(vars_)}")
        if self.chance(70):
            self.features.add("loop-capture-first-iteration-only")
            out.append(pad + f"    if {first_test}:")
            out.append(pad + f"        {cap} = {self.read()} + {self.expr(vars_)}")
        else:
            out.append(pad + f"    {cap} = {self.read()} + {self.expr(vars_)}")
        return cap

    def while_counter(self, vars_, ind, depth, in_func):
        pad = "    " * ind
        c = self.fresh("c")
        self.features.add("while-counter")
        out = [pad + f"{c} = 0", pad + f"while {c} < {self.choice(['2', '3', '4'])}:", pad + f"    {c} += 1"]
        self.ro.add(c)  # only the loop header code writes it
        cap = self.loop_capture(out, pad, vars_ + [c], f"{c} == 1") if self.chance(30) else None
        out += self.block(vars_ + [c], ind + 1, depth + 1, in_func, in_loop=True)
        if cap:
            out.append(pad + f"{self.choice(WRITES)} = {cap} + {self.atom(vars_)}")
        return out

    def while_read(self, vars_, ind, depth, in_func):
        """loop on a device value; first statement is an effect so every iteration moves the
        environment's epoch (reads between two effects are constant by construction)"""
        pad = "    " * ind
        self.features.add("while-read")
        out = [pad + f"while {self.choice(['d0.Setting', 'd1.Setting', 'furn.Reagents'])} {self.choice(['>', '<', '>=', '!='])} {self.const()}:",
               pad + "    " + self.effect_stmt()]
        out += self.block(vars_, ind + 1, depth + 1, in_func, in_loop=True)
        return out

    def for_list(self, vars_, ind, depth, in_func):
        pad = "    " * ind
        e = self.fresh("e")
        self.ro.add(e)
        self.features.add("for-list")
        n = self.n(1, 4)
        if self.chance(30):
            items = ", ".join(self.choice(['HASH("O2")', 'HASH("N2")', 'STR("AB")', "3"]) for _ in range(n))
        else:
            items = ", ".join(self.const() for _ in range(n))
        if self.named_lists and self.chance(30):
            self.features.add("for-over-named-list")
            out = [pad + f"for {e} in {self.choice(self.named_lists)[0]}:"]
        else:
            out = [pad + f"for {e} in [{items}]:"]
        if self.chance(25):
            # the loop value used as a device name hash (README: for_list example)
            self.features.add("list-value-as-batch-name")
            out.append(pad + f"    ConsoleLED5s[{e}].Setting = GasSensors[{e}].Pressure.Average + 1")
        self.no_calls += 1
        try:
            out += self.block(vars_ + [e], ind + 1, self.cfg.max_depth - 1, in_func, in_loop=True)
        finally:
            self.no_calls -= 1
        return out

    # ---------------- program
    def function(self, fi, globs):
        name = f"f{fi}"
        npar = self.n(0, self.cfg.max_params)
        has_ret = self.chance(60)
        params = [f"p{fi}{j}" for j in range(npar)]
        L = [f"def {name}({', '.join(params)}):"]
        writable = []
        if self.cfg.globals_ and self.wglobs:
            gl = [g for g in self.wglobs if self.chance(60)]
            if gl:
                L.append(f"    global {', '.join(gl)}")
                self.features.add("global-write")
                writable = gl
        # parameters: some are overwritten in the body (forces a copy when inlined), some not
        ro_before, frozen_before = set(self.ro), set(self.frozen)
        for p in params:
            if self.chance(50):
                self.ro.add(p)
                self.frozen.add(p)
        for g in globs:
            if g not in writable:
                self.ro.add(g)
        vars_ = params + list(globs)
        inner = None
        if self.cfg.nested_defs and self.chance(10):
            # a nested function definition, used by the rest of the outer body
            self.features.add("nested-def")
            inner = {"name": f"in{fi}", "npar": 1, "has_ret": True, "calls": 0}
            L.append(f"    def in{fi}(q{fi}):")
            L.append(f"        {self.write([f'q{fi}'])}")
            L.append(f"        return {self.expr([f'q{fi}'])}")
            self.funcs.append(inner)
        body = self.block(vars_, 1, 0, "ret" if has_ret else "noret", n=self.n(1, self.cfg.func_stmts))
        if inner is not None:
            body.append(f"    {self.choice(WRITES)} = in{fi}({self.arg(vars_)}) + 1")
            self.funcs.remove(inner)
        # a `return` generated by block() at depth 0 cannot happen (depth>0 required), so add the tail
        L += body
        if self.chance(18):
            # the function ends in a loop that is left by a `return` which is the last statement of
            # the loop body (directly or at the end of a trailing if/else)
            self.features.add("ends-in-loop-with-return")
            c = self.fresh("c")
            self.ro.add(c)
            lim = self.choice(["1", "2", "3"])
            ret = (lambda: f"return {self.expr(vars_ + [c])}") if has_ret else (lambda: "return")
            L.append(f"    {c} = 0")
            if self.chance(50):
                L.append("    while True:")
                L.append(f"        {c} += 1")
                L += self.block(vars_ + [c], 2, self.cfg.max_depth - 1, "ret" if has_ret else "noret", n=1, in_loop=False)
                if self.chance(50):
                    L += [f"        if {c} >= {lim}:", f"            {ret()}"]
                else:
                    L += [f"        if {c} < {lim}:", f"            {self.write(vars_ + [c])}", "        else:", f"            {ret()}"]
            else:
                L.append(f"    for {c}x in range(5):")
                L.append(f"        {self.write(vars_)}")
                L += [f"        if {c}x >= {lim}:", f"            {ret()}"]
                if has_ret:
                    L.append(f"    return {self.expr(vars_)}")
        elif self.cfg.intrinsics and self.chance(5):
            # a function that never runs off its end: guard-clause return, then halt-and-catch-fire
            self.features.add("ends-in-hcf")
            L.append(f"    if {self.test(vars_)}:")
            L.append(f"        return {self.expr(vars_)}" if has_ret else "        return")
            L.append("    hcf()")
        elif has_ret and self.chance(22):
            # every return closes a branch of an if/elif/else that is the function's last statement
            self.features.add("ends-in-if-else-returns")
            L.append(f"    if {self.test(vars_)}:")
            if self.chance(50):
                L.append(f"        {self.write(vars_)}")
            L.append(f"        return {self.expr(vars_)}")
            if self.chance(40):
                L.append(f"    elif {self.test(vars_)}:")
                L.append(f"        return {self.expr(vars_)}")
            L.append("    else:")
            if self.chance(50) and self.funcs:
                L.append(f"        {self.call_stmt(vars_)}")
            L.append(f"        return {self.expr(vars_)}")
        elif has_ret:
            L.append(f"    return {self.expr(vars_)}")
        elif self.cfg.tail_call_bias and self.funcs and self.chance(self.cfg.tail_call_bias):
            cands = [f for f in self.funcs if not f["has_ret"]] or self.funcs
            f = self.choice(cands)
            f["calls"] += 1
            self.features.add("ends-in-call")
            L.append(f"    {f['name']}({', '.join(self.arg(vars_) for _ in range(f['npar']))})")
        self.ro = ro_before | {p for p in params}
        self.frozen = frozen_before
        self.funcs.append({"name": name, "npar": npar, "has_ret": has_ret, "calls": 0, "wglobals": list(writable)})
        return L

    def program(self):
        cfg = self.cfg
        L = [HDR.rstrip("\n")] + list(PRELUDE)
        nglob = self.n(0, 2) if cfg.globals_ else 0
        globs = [f"g{i}" for i in range(nglob)]
        # globals that some function may write (never aliased) vs. frozen ones
        self.wglobs = [g for g in globs if self.chance(50)]
        for g in globs:
            if g in self.wglobs:
                L.append(f"{g} = {self.const() if self.chance(60) else self.read()}")
            else:
                L.append(f"{g} = {self.const() if self.chance(40) else self.read()}")
                self.frozen.add(g)
        if cfg.lists and self.chance(35):
            for li in range(self.n(1, 2)):
                ln = self.n(1, 5)
                items = self.list_items(ln)
                brk = ("(", ")") if ln > 1 and self.chance(25) else ("[", "]")
                L.append(f"arr{li} = {brk[0]}{items}{brk[1]}")
                self.named_lists.append((f"arr{li}", ln))
        nf = self.n(min(cfg.min_funcs, cfg.max_funcs), cfg.max_funcs)
        for fi in range(nf):
            L += self.function(fi, globs)
        # globals stay writable from main only if no function might alias them -> main never rebinds
        for g in globs:
            self.ro.add(g)
        main_vars = list(globs)
        if cfg.terminating_main and (not self.funcs or cfg.terminating_with_funcs):
            self.features.add("terminating-main")
            L += self.block(main_vars, 0, 1, None, n=self.n(1, cfg.main_stmts + 2))
            for f in self.funcs:
                while f["calls"] < 2 and not f.get("inner") and self.chance(cfg.call_twice_pct):
                    f["calls"] += 1
                    self.features.add("extra-call-in-main")
                    call = f"{f['name']}({', '.join(self.arg(main_vars) for _ in range(f['npar']))})"
                    L.append(f"{self.choice(WRITES)} = {call}" if f["has_ret"] and self.chance(60) else call)
        else:
            L += self.block(main_vars, 0, 2, None, n=self.n(0, cfg.main_stmts))
            L.append("while True:")
            L += self.block(main_vars, 1, 1, None, n=self.n(1, cfg.loop_stmts), in_loop=False)
            L.append("    yield_()")
        return "\n".join(L) + "\n"


def pool_for(consts):
    s = set(POOL_BASE)
    for c in consts:
        for d in (-1.0, -0.5, 0.0, 0.5, 1.0):
            s.add(c + d)
    return sorted(s)


@st.composite
def program_cases(draw, cfg=None, nenv=3):
    g = ProgGen(draw, cfg)
    src = g.program()
    seeds = [draw(st.integers(0, 2**31 - 1)) for _ in range(nenv)]
    return {
        "src": {"": src},
        "env_seeds": seeds,
        "pool": pool_for(g.consts_used),
        "features": sorted(g.features),
        "calls": {f["name"]: f["calls"] for f in g.funcs},
    }
