"""C08 - compact output means the same as verbose output (DESIGN section 8)."""
import re

from hypothesis import strategies as st

from .. import ic10vm, isa, oracle, repo
from ..gen import programs
from ..runner import Violation, hyp_search, sha
from . import c16

ID = "C08"
LEVEL = "exploration"
RULE = (
    "(a) exhaustive: every member of every enum class in the syntactic role it can take (logic type / slot type / "
    "batch mode / reagent mode operand, or value); (b) Hypothesis: programs using HASH(s), STR(s), named batches X[s], "
    "device aliases, hex and large literals with s from text strategies (printable ASCII incl. blanks and '#', other "
    "Unicode; STR <= 6 ASCII characters), structure classes drawn from all 358, plus general generated programs, x "
    "{remove_labels, inline} equal on both sides; oracle: an independent position-aware normaliser (operand kinds per "
    "opcode from pv/isa.py, own CRC-32, own STR packing, enum numbers parsed from types_generated.py with ast) maps "
    "the compact and the verbose output to numeric instruction sequences, which must be identical. Non-trivial: the "
    "two outputs differ textually in >= 1 token; distinct by SHA-1 of (source, options)."
)
ASSUMPTIONS = [
    "strings contain no double quote, CR or LF (HASH(\"...\") has no escape syntax in IC10)",
    "STR(..) limited to <= 6 ASCII characters (packing below 2^53)",
    "a token's meaning depends on its operand position (Maximum is logic type 23 and batch mode 3)",
]
KINDCLS = {"lt": "LogicType", "st": "LogicSlotType", "bm": "LogicBatchMethod", "rm": "LogicReagentMode"}
_enum = None


def enum_maps():
    global _enum
    if _enum is None:
        e = c16.parse_enums()
        plain = {cls: dict(m) for cls, m in e.items()}
        qual = {f"{cls}.{n}": v for cls, m in e.items() for n, v in m}
        _enum = (plain, qual)
    return _enum


def nshards(tier):
    return 16


def strpack(s):
    v = 0
    for ch in s:
        v = v << 8 | ord(ch)
    return v


def norm_token(tok, kind, labels):
    plain, qual = enum_maps()
    if isa.REG.match(tok) or isa.DEV.match(tok):
        return tok
    if (tok.startswith('HASH("') and tok.endswith('")')) or (tok.startswith("HASH('") and tok.endswith("')")):
        return float(c16.crc32_signed(tok[6:-2]))
    if (tok.startswith('STR("') and tok.endswith('")')) or (tok.startswith("STR('") and tok.endswith("')")):
        return float(strpack(tok[5:-2]))
    if tok.startswith("$"):
        return float(int(tok[1:], 16))
    if tok.startswith("%"):
        return float(int(tok[1:], 2))
    if isa.NUM.match(tok):
        return float(tok)
    if tok in qual:
        return float(qual[tok])
    if kind in KINDCLS and tok in plain[KINDCLS[kind]]:
        return float(plain[KINDCLS[kind]][tok])
    if tok in labels:
        return "label:" + tok
    return "sym:" + tok


def normalise(code):
    lines = [ic10vm.tokenize(l) for l in code.split("\n")]
    labels = {t[0][:-1] for t in lines if len(t) == 1 and t[0].endswith(":")}
    aliases = set()
    out = []
    for t in lines:
        if not t:
            continue
        if len(t) == 1 and t[0].endswith(":"):
            out.append(("label", t[0]))
            continue
        op = t[0]
        kinds = isa.T.get(op, [])
        ops = []
        for i, a in enumerate(t[1:]):
            k = kinds[i] if i < len(kinds) else "v"
            if op in ("alias", "define") and i == 0:
                aliases.add(a)
                ops.append("name:" + a)
            elif a in aliases:
                ops.append("name:" + a)
            else:
                ops.append(norm_token(a, k, labels))
        out.append((op, tuple(ops)))
    return out


def check_pair(srcs, base, stats=None, family=""):
    v = oracle.compile_case(srcs, dict(base, compact=False))
    c = oracle.compile_case(srcs, dict(base, compact=True))
    if stats is not None:
        stats.evaluations += 1
    if ("error" in v) != ("error" in c):
        why = oracle.norm_error((v.get("error") or c.get("error"))["description"]).split(": ")[0]
        raise Violation("C08:compact-changes-acceptance:" + why, {"verbose": oracle.public(v), "compact": oracle.public(c), "opts": base})
    if "error" in v:
        if stats is not None:
            stats.discarded["reject:" + oracle.norm_error(v["error"]["description"])] += 1
        return
    nv, nc = normalise(v["code"]), normalise(c["code"])
    if nv != nc:
        k = next((i for i in range(min(len(nv), len(nc))) if nv[i] != nc[i]), min(len(nv), len(nc)))
        vl = [l for l in v["code"].split("\n") if ic10vm.tokenize(l)]
        cl = [l for l in c["code"].split("\n") if ic10vm.tokenize(l)]
        what = "instruction-count" if len(nv) != len(nc) else "operand-value"
        raise Violation("C08:compact-differs-from-verbose:" + what,
                        {"opts": base, "index": k, "verbose_line": vl[k] if k < len(vl) else None, "compact_line": cl[k] if k < len(cl) else None,
                         "verbose_norm": str(nv[k]) if k < len(nv) else None, "compact_norm": str(nc[k]) if k < len(nc) else None})
    # unresolved symbolic tokens that survive in compact mode must be identical text (nothing to judge)
    if stats is not None:
        tv = [t for l in v["code"].split("\n") for t in ic10vm.tokenize(l)]
        tc = [t for l in c["code"].split("\n") for t in ic10vm.tokenize(l)]
        ndiff = sum(1 for a, b in zip(tv, tc) if a != b)
        stats.classes[family + ":tokens-differ" if ndiff else family + ":identical-text"] += 1
        if ndiff:
            stats.nontrivial.add(sha([srcs, base])[:16])
            stats.sample({"source": srcs[""][-400:], "options": base, "verbose": v["code"][:300], "compact": c["code"][:300]}, limit=3)


# ---------------------------------------------------------------- generators
name_text = st.one_of(
    st.text(alphabet=st.characters(min_codepoint=32, max_codepoint=126, blacklist_characters='"'), min_size=1, max_size=16),
    st.text(alphabet=st.characters(blacklist_categories=["Cs", "Cc"], blacklist_characters='"  \x85'), min_size=1, max_size=8),
    st.sampled_from(["A", "Bank 1", "#1", "a # b", "  lead", "trail  ", "O2", "ÄÖ", "x" * 30, "update", "r0", "HASH", "12", "-5", "$FF", "a\\b", "'q'",
                     "Storage Tank", "Pump (2)", "Sensor", "(x)", "Test", "STR", "abc)", "HASH(", "SH", "AAA", "S", "H)", "Heater (A)"]),
    # pieces of IC10 syntax inside the name: label / comment / jump look-alikes
    st.lists(st.sampled_from([":", "#", " ", "a", "main", "j ", "0", "ra", "end:", "# x", ".", "lbwhile1", "'"]), min_size=1, max_size=5).map("".join),
)
str_text = st.text(alphabet=st.characters(min_codepoint=32, max_codepoint=126, blacklist_characters='"'), min_size=1, max_size=6)
_structs = None
FN_WORDS = ["Door", "Pump", "Gate", "Show2", "Tank", "Left"]


def struct_names():
    global _structs
    if _structs is None:
        classes, singles = c16.parse_structures()
        plural_of = c16.plural_names(classes, singles)
        _structs = sorted((n, plural_of[c["prefab"]]) for n, c in classes.items()
                          if "_BaseStructure" in c["bases"] and c["prefab"] and c["prefab"] in plural_of)
    return _structs


@st.composite
def string_programs(draw):
    L = [programs.HDR.rstrip("\n")]
    n = draw(st.integers(1, 8))
    ss = struct_names()
    fns = []
    if draw(st.booleans()):
        # user functions that stay out of line (two call sites) and a loop: their labels exist in the verbose output,
        # and some device names below contain those very words (text-level label removal must not touch them)
        fns = draw(st.lists(st.sampled_from(FN_WORDS), min_size=1, max_size=2, unique=True))
        for f in fns:
            L += [f"def {f}(state):", f"    d2.Setting = state + {len(f)}"]
    label_words = fns + (["lbwhile1", "lbwhile.end1"] if fns else [])
    for i in range(n):
        k = draw(st.integers(0, 12))
        sing, plur = ss[draw(st.integers(0, len(ss) - 1))]
        s = draw(name_text)
        if label_words and draw(st.booleans()):
            ws = [draw(st.sampled_from(["Main", "Hangar", "1", "Left", "2", "A"])) for _ in range(draw(st.integers(0, 2)))]
            ws.insert(draw(st.integers(0, len(ws))), draw(st.sampled_from(label_words)))
            s = " ".join(ws)
        if k == 0:
            L.append(f"db.Setting = HASH({s!r})" if "'" not in s or True else "")
        elif k == 1:
            L.append(f"db.Setting = STR({draw(str_text)!r})")
        elif k == 2:
            L.append(f"db.Setting = {plur}[{s!r}].PrefabHash.{draw(st.sampled_from(['Maximum', 'Minimum', 'Average', 'Sum']))}")
        elif k == 3:
            L.append(f"{plur}[{s!r}].ReferenceId = d0.Setting")
        elif k == 4:
            L.append(f"db.Setting = {plur}.{draw(st.sampled_from(['Average', 'Sum']))}.NameHash")
        elif k == 5:
            al = "al" + str(i)
            L.append(f"{al} = {sing}(d{draw(st.integers(0, 5))}, alias=True)")
            L.append(f"db.Setting = {al}.PrefabHash")
        elif k == 6:
            L.append(f"db.Setting = {draw(st.sampled_from(['0x10', '0xFFFF', '0x2355', '123456', '10001', '9999', '-247344692', '4294967296', '0.5']))}")
        elif k == 7:
            L.append(f"x{i} = lbn(HASH({s!r}), HASH({draw(name_text)!r}), LogicType.{draw(st.sampled_from(['On', 'Maximum', 'Setting', 'Ratio']))}, LogicBatchMethod.{draw(st.sampled_from(['Maximum', 'Sum']))})")
            L.append(f"db.Setting = x{i}")
        elif k == 8:
            L.append(f"d1.Setting = {draw(st.sampled_from(['Color.Red', 'SortingClass.Ores', 'DisplayMode.Celsius', 'GasType.PollutedWater', 'SlotClass.Battery', 'Sound.Alarm2']))}")
        elif k == 9:
            L.append(f"db.Setting = {sing}(d1).PrefabHash if d0.On > 0 else HASH({s!r})")
        elif k == 10:
            # arithmetic on a hash / string constant: folded in verbose mode from the symbolic spelling,
            # in compact mode from the number
            op = draw(st.sampled_from(["+ 1", "% 16", "- 3", "* 2", "& 255", ">> 2"]))
            L.append(f"db.Setting = HASH({s!r}) {op}")
            L.append(f"h{i} = HASH({s!r})")
            L.append(f"d1.Setting = -h{i} + d0.Setting")
        elif k == 11:
            # raw string operands of intrinsics are emitted as they are (README: intrinsics example)
            q = draw(st.sampled_from(["'", '"']))
            nm = draw(st.sampled_from(["StructureBattery", "StructureWallLight", "Main Battery", "A", "Sensor (1)"]))
            raw = f"HASH({q}{nm}{q})"
            L.append(f"x{i} = lbn({raw!r}, HASH({s!r}), LogicType.Ratio, LogicBatchMethod.Average)")
            L.append(f"db.Setting = x{i}")
            L.append(f"sb({raw!r}, LogicType.On, 1)")
        else:
            L.append(f"db.Setting = STR({draw(str_text)!r}) + 1")
    for f in fns:
        L += [f"{f}(1)", f"{f}(d0.Setting)"]
    if fns:
        L += ["while d1.On > 0:", "    yield_()"]
    base = {"remove_labels": draw(st.booleans()), "inline_functions": draw(st.booleans())}
    return {"src": {"": "\n".join(L) + "\n"}, "opts": base, "family": "strings"}


@st.composite
def general(draw):
    c = draw(programs.program_cases(programs.Cfg(call_bias=10), nenv=0))
    c["opts"] = {"remove_labels": draw(st.booleans()), "inline_functions": draw(st.booleans()),
                 "use_push_pop_functions": draw(st.booleans())}
    c["family"] = "general"
    return c


def check_case(case, stats=None):
    check_pair(case["src"], dict(case.get("opts") or {}), stats, case.get("family", ""))


def enum_sweep(ctx):
    enums = c16.parse_enums()
    items = [(cls, n) for cls in sorted(enums) for n, _ in enums[cls]]
    mine = items[ctx.shard::ctx.nshards]
    for group in c16.chunks(mine, 40):
        lines = []
        for cls, name in group:
            if cls in c16.POSITIONAL:
                lines += [c16.POSITIONAL[cls](name)[0], "db.Setting = x"]
            else:
                lines.append(f"db.Setting = {cls}.{name}")
        case = {"src": {"": programs.HDR + "\n".join(lines) + "\n"}, "opts": {}, "family": "enum-sweep"}
        try:
            check_case(case, ctx.stats)
            ctx.stats.extra["enum_members_swept"] = ctx.stats.extra.get("enum_members_swept", 0) + len(group)
        except Violation as v:
            if v.signature in ctx.known_signatures:
                ctx.stats.known[ctx.known_signatures[v.signature]] += 1
            else:
                ctx.stats.violations.append({"signature": v.signature, "detail": v.detail, "case": case})


def run_shard(ctx):
    enum_sweep(ctx)
    hyp_search(ctx, string_programs(), lambda c: check_case(c, ctx.stats), ctx.scale(120, 1500))
    hyp_search(ctx, general(), lambda c: check_case(c, ctx.stats), ctx.scale(50, 600), label="general")


def replay(case):
    try:
        check_case(case, None)
    except Violation as v:
        return {"kind": "violation", "signature": v.signature, "detail": v.detail}
    return {"kind": "ok"}
