"""C11 - a compilation's result does not depend on what was compiled before (DESIGN section 11)."""
import copy
import glob
import json
import os
import re
import subprocess
import sys

import hypothesis
from hypothesis import HealthCheck, settings
from hypothesis import strategies as st
from hypothesis.stateful import Bundle, RuleBasedStateMachine, initialize, invariant, rule, run_state_machine_as_test

from .. import repo
from ..gen import options as gopt
from ..gen import programs
from ..runner import Violation, sha
from . import c13

ID = "C11"
LEVEL = "exploration"
STUCK_S = 240  # a single case may legitimately take this long (seconds) before the runner calls it stuck
WORKERS = 4
RULE = (
    "Hypothesis rule-based state machine over one long-lived process: requests are drawn from the repository's cases, "
    "examples and library scripts, generated programs, generated programs split over 1-3 library modules, sources with '# pytrapic:' directives, constexpr sources (two "
    "programs with the same call text but different bodies; constexpr functions returning lists of 2-9 entries that are "
    "looped over and indexed at run time, optionally through a helper constexpr whose body differs between otherwise "
    "identical programs), erroring sources, x option vectors given as fresh "
    "dataclass objects, as dataclass objects shared across calls, and as dicts; rules: compile, compile again, compile "
    "the compact-toggled twin in between, compile an erroring source, compile with a shared options object. "
    "Invariants after every step: the result equals the result of the same (sources, option values) computed in a "
    "fresh process (memoised per distinct request; computed twice, by fresh processes with two different string-hash "
    "seeds, which must agree), equals every earlier result for that request in this history, "
    "and the options object and source mapping equal deep copies taken before the call. Non-trivial: a history of >= 6 "
    "compilations containing a repeated request separated by a request with another compact value, and a "
    "directive-bearing source compiled with a shared options object; distinct by SHA-1 of the request sequence."
)
ASSUMPTIONS = [
    "results are compared without 'stack_trace' and with memory addresses (0x...) masked: object reprs in internal-error texts differ between processes",
    "the fresh-process reference runs the unmodified code (no speed instrumentation, hook off); to keep it affordable every "
    "reference is computed by a forked copy of a template process whose only history is one trivial compilation, and every "
    "40th distinct request additionally in a brand-new interpreter (both must agree)",
]
HDR = programs.HDR
FRESH = {}
# a small set of option vectors so that requests repeat within a history (bit order = repo.OPTION_NAMES)
VEC_BITS = [0, 4, 16, 20, 36, 52, 12, 132, 191 & ~64, 1 | 2 | 16, 8 | 32, 128 | 4 | 32]


def nshards(tier):
    return 4 if tier == "quick" else 16


def norm(res):
    def fix(x):
        if isinstance(x, str):
            return re.sub(r"0x[0-9a-fA-F]+", "0xADDR", x)
        if isinstance(x, dict):
            return {k: fix(v) for k, v in x.items() if k not in ("stack_trace", "_verif")}
        if isinstance(x, list):
            return [fix(v) for v in x]
        return x

    return fix(res)


FRESH_SCRIPT = r"""
import json, sys
sys.path.insert(0, sys.argv[1])
from stationeers_pytrapic.compiler import compile_code, CompileOptions
req = json.load(sys.stdin)
srcs, opts = req
r = compile_code(srcs if len(srcs) > 1 else srcs[""], CompileOptions(**opts))
print("RESULT" + json.dumps(r))
"""


SERVER_SCRIPT = r"""
import json, os, sys
sys.path.insert(0, sys.argv[1])
from stationeers_pytrapic.compiler import compile_code, CompileOptions
# warm the import machinery with one trivial compilation; every request is then served by a forked
# child, i.e. by a process whose only history is this line
compile_code("from stationeers_pytrapic.symbols import *\n", CompileOptions())
out = os.fdopen(os.dup(1), "w")
sys.stdout = sys.stderr
for line in sys.stdin:
    srcs, opts = json.loads(line)
    r, w = os.pipe()
    pid = os.fork()
    if pid == 0:
        os.close(r)
        try:
            res = compile_code(srcs if len(srcs) > 1 else srcs[""], CompileOptions(**opts))
            data = json.dumps(res)
        except BaseException as e:
            data = json.dumps({"__raised__": repr(e)})
        with os.fdopen(w, "w") as f:
            f.write(data)
        os._exit(0)
    os.close(w)
    with os.fdopen(r) as f:
        data = f.read()
    os.waitpid(pid, 0)
    out.write(data + "\n")
    out.flush()
"""
_servers = {}
TRULY_FRESH_EVERY = 40  # every Nth distinct request is also computed in a brand-new interpreter
# two template processes with different string-hash seeds: "a fresh process" is any fresh process, and the
# iteration order of sets of strings differs between them (set by run_shard from VERIF_SEED and the shard)
HASHSEEDS = ["0", "12345"]


def server_result(srcs, optvals, which=0):
    srv = _servers.get(which)
    if srv is None or srv.poll() is not None:
        env = dict(os.environ)
        env.pop("PYTRAPIC_VERIF", None)
        env["PYTHONHASHSEED"] = HASHSEEDS[which]
        srv = _servers[which] = subprocess.Popen([sys.executable, "-c", SERVER_SCRIPT, repo.SRC], stdin=subprocess.PIPE, stdout=subprocess.PIPE, text=True, env=env)
    srv.stdin.write(json.dumps([srcs, optvals]) + "\n")
    srv.stdin.flush()
    line = srv.stdout.readline()
    if not line:
        raise repo.HarnessError("fresh-process server died")
    return norm(json.loads(line))


def brand_new_result(srcs, optvals):
    env = dict(os.environ)
    env.pop("PYTRAPIC_VERIF", None)
    env["PYTHONHASHSEED"] = HASHSEEDS[1]
    p = subprocess.run([sys.executable, "-c", FRESH_SCRIPT, repo.SRC], input=json.dumps([srcs, optvals]), capture_output=True, text=True, env=env, timeout=300)
    line = [l for l in p.stdout.splitlines() if l.startswith("RESULT")]
    if not line:
        raise repo.HarnessError("fresh-process reference failed: " + p.stderr[-500:])
    return norm(json.loads(line[-1][6:]))


def fresh(srcs, optvals):
    key = sha([srcs, optvals])
    if key not in FRESH:
        for attempt in range(4):
            r = server_result(srcs, optvals)
            if not spurious_timeout(r, srcs):
                break
        for attempt in range(4):
            ralt = server_result(srcs, optvals, 1)
            if not spurious_timeout(ralt, srcs):
                break
        FRESH_STATS["second_hash_seed"] += 1
        if ralt != r and not spurious_timeout(r, srcs) and not spurious_timeout(ralt, srcs):
            raise Violation("C11:result-depends-on-the-hash-seed-of-the-process",
                            {"sources": srcs, "options": optvals, "hash_seeds": list(HASHSEEDS), "first": r, "second": ralt})
        if BRAND_NEW_ENABLED[0] and len(FRESH) % TRULY_FRESH_EVERY == 0 and not spurious_timeout(r, srcs):
            for attempt in range(3):
                r2 = brand_new_result(srcs, optvals)
                if not spurious_timeout(r2, srcs):
                    break
            FRESH_STATS["brand_new"] += 1
            if r2 != r and not spurious_timeout(r2, srcs):
                # the warmed template already differs from a brand-new interpreter: history dependence
                raise Violation("C11:result-after-one-trivial-compilation-differs-from-brand-new-process",
                                {"sources": srcs, "options": optvals, "brand_new": r2, "after_trivial_compilation": r})
        FRESH[key] = r
    return FRESH[key]


FRESH_STATS = {"brand_new": 0, "second_hash_seed": 0}
CX_SEEN = []
FIRST = {"v": None}
PROCESS_LOG = []
BRAND_NEW_ENABLED = [True]


def spurious_timeout(res, srcs):
    """the 1 s limit of the constexpr child can fire on a loaded machine although the body terminates
    (none of the request pool's constexpr bodies loops)"""
    return "error" in res and bool(re.search(r"(?i)\btime[ -]?out\b|\btimed out\b", str(res["error"].get("description", ""))))


def fixed_requests():
    out = []
    for f in sorted(glob.glob(os.path.join(repo.REPO, "test", "cases", "*.py")))[::3]:
        if "constexpr" in f:
            continue
        out.append({"": open(f, encoding="utf-8").read()})
    for f in sorted(glob.glob(os.path.join(repo.REPO, "test", "mod_scripts", "*.py")))[:3]:
        src = open(f, encoding="utf-8").read()
        mods = {"": src}
        for m in re.findall(r"from library import (\w+)", src):
            mods[m] = open(os.path.join(repo.REPO, "test", "mod_libraries", m + ".py"), encoding="utf-8").read()
        out.append(mods)
    base = "def f(a):\n    db.Setting = a + LogicType.On\nwhile True:\n    f(1)\n    f(d0.Setting)\n    d1.Setting = Color.Blue\n    yield_()\n"
    for d in ["# pytrapic: compact", "# pytrapic: no-inline-functions, remove-labels", "# pytrapic: no-append-version, use_push_pop_functions",
              "# pytrapic: original-code-as-comment", "# pytrapic: no-compact, generated_comments"]:
        out.append({"": HDR + d + "\n" + base})
    # same call text, different constexpr bodies (a cache keyed by the call alone would confuse them)
    for body in ["return a * 2", "return a * 3 + 1", "return HASH('x') + a"]:
        out.append({"": HDR + f"@constexpr\ndef k(a):\n    {body}\ndb.Setting = k(2)\n"})
    # constexpr results that are containers (the value object may be remembered by the process): lists of several
    # lengths, looped over and indexed with a run-time value
    for n in (3, 5, 7, 8, 9):
        out.append({"": HDR + f"@constexpr\ndef table(n):\n    return [i * i + 1 for i in range(n)]\nt = table({n})\nfor v in t:\n    d1.Setting = v\n"
                               f"db.Setting = t[min(max(d0.Setting, 0), {n - 1})]\n"})
    for bad in ["db.Setting = (\n", "db.Setting = undefined_name\n", "class A:\n    pass\n", "def f(a):\n    f(a)\nf(1)\n", "x = d0\nx = d1\n"]:
        out.append({"": HDR + bad})
    return out


class History(RuleBasedStateMachine):
    reqs = Bundle("reqs")
    stats = None

    def __init__(self):
        super().__init__()
        self.comp = repo.load()
        self.fixed = fixed_requests()
        self.shared = {}
        self.earlier = {}
        self.log = []
        self.full = []
        self.last_compact = None
        self.flags = {"repeat-across-compact-switch": False, "directive-with-shared-options": False}
        self.last_seen_at = {}
        self.compact_history = []

    def note(self, v):
        """remember the first violation: a history-dependent failure need not reproduce when Hypothesis
        replays the same steps in this (by then differently conditioned) process"""
        if FIRST["v"] is None:
            FIRST["v"] = v
        return v

    @rule(target=reqs, i=st.integers(0, 60))
    def pick_fixed(self, i):
        return self.fixed[i % len(self.fixed)]

    @rule(target=reqs, n=st.integers(2, 9), body=st.sampled_from(["[i * i + 1 for i in range(n)]", "[n - i for i in range(n)]", "[7] * n"]),
          use=st.sampled_from(["loop-then-index", "index-then-loop", "index-twice", "loop"]), helper=st.sampled_from([None, "return 2", "return 5"]))
    def pick_constexpr(self, n, body, use, helper):
        # state the property names: the constexpr result cache.  Results that are mutable containers, used in
        # several ways, and helper-dependent results whose helper differs between otherwise identical programs
        L = [HDR.rstrip("\n")]
        if helper:
            L += ["@constexpr", "def scale():", f"    {helper}"]
            body = body.replace("for i in", "* scale() for i in") if "for i in" in body else body + " + [scale()]"
        L += ["@constexpr", "def table(n):", f"    return {body}", f"t = table({n})"]
        idx = f"db.Setting = t[min(max(d0.Setting, 0), {n - 1})]"
        loop = ["for v in t:", "    d1.Setting = v"]
        L += {"loop-then-index": loop + [idx], "index-then-loop": [idx] + loop, "index-twice": [idx, idx.replace("d0", "d2")], "loop": loop}[use]
        req = {"": "\n".join(L) + "\n"}
        if req not in CX_SEEN and len(CX_SEEN) < 40:
            CX_SEEN.append(req)
        return req

    @rule(n=st.sampled_from([2, 3, 5, 6, 7, 7, 8, 9, 9]), body=st.sampled_from(["[i * i + 1 for i in range(n)]", "[n - i for i in range(n)]"]),
          use=st.sampled_from(["loop-then-index", "index-then-loop", "index-twice"]), bits=st.sampled_from(VEC_BITS))
    def compile_a_constexpr_request_twice(self, n, body, use, bits):
        # "compiling the same input again in the same process": the second compilation finds whatever the first one
        # left in the constexpr cache
        L = [HDR.rstrip("\n"), "@constexpr", "def table(n):", f"    return {body}", f"t = table({n})"]
        idx = f"db.Setting = t[min(max(d0.Setting, 0), {n - 1})]"
        loop = ["for v in t:", "    d1.Setting = v"]
        L += {"loop-then-index": loop + [idx], "index-then-loop": [idx] + loop, "index-twice": [idx, idx.replace("d0", "d2")]}[use]
        req = {"": "\n".join(L) + "\n"}
        self._compile(req, bits & ~64, "fresh")
        self._compile(req, bits & ~64, "fresh")

    @rule(i=st.integers(0, 1000), bits=st.sampled_from(VEC_BITS))
    def compile_a_constexpr_request_of_this_process_again(self, i, bits):
        # the cache the property names lives as long as the process, i.e. across the histories (examples) of a shard
        if CX_SEEN:
            self._compile(CX_SEEN[i % len(CX_SEEN)], bits & ~64, "fresh")

    @rule(target=reqs, c=programs.program_cases(programs.Cfg(max_funcs=2, loop_stmts=2, func_stmts=2), nenv=0))
    def pick_generated(self, c):
        return c["src"]

    @rule(target=reqs, mc=c13.cases())
    def pick_modules(self, mc):
        # programs split over 1-3 library modules with module-level state
        A = c13.render(mc)[0]
        if mc["env_seeds"][0] % 2:
            # the mod sends every library it knows with each request: one the main file does not import
            A["spare_lib"] = HDR + "def spare(a):\n    d5.Setting = a\n"
        return A

    def _compile(self, srcs, bits, mode):
        vec = gopt.vector_from_bits(bits)
        if mode == "none":
            vec = dict(repo.DEFAULTS)  # options omitted: the API defaults apply
            opts = None
        elif mode == "shared":
            opts = self.shared.setdefault(bits, self.comp.CompileOptions(**vec))
            # a shared object must still hold the values it was created with (checked below after each call)
        elif mode == "dict":
            opts = dict(vec)
        else:
            opts = self.comp.CompileOptions(**vec)
        src_arg = dict(srcs) if len(srcs) > 1 else srcs[""]
        before_opts, before_src = copy.deepcopy(opts), copy.deepcopy(src_arg)
        try:
            res = self.comp.compile_code(src_arg) if mode == "none" else self.comp.compile_code(src_arg, opts)
        except BaseException as e:
            if type(e).__name__ == "_CaseTimeout":
                raise
            raise Violation("C11:compile_code-raises:" + type(e).__name__, {"error": repr(e)[:300], "log": self.log[-6:]})
        key = sha([srcs, vec])
        self.log.append({"request": key[:10], "mode": mode, "bits": bits, "head": srcs[""][:80]})
        PROCESS_LOG.append({"sources": srcs, "bits": bits, "mode": mode})
        # the process keeps its state across Hypothesis examples: the replayable history is what this
        # process compiled so far (last 80 requests)
        detail = {"sources": srcs, "options": vec, "mode": mode, "history": self.log[-12:], "full_history": list(PROCESS_LOG[-80:])}
        if opts != before_opts:
            raise self.note(Violation("C11:options-object-modified", dict(detail, before=repr(before_opts), after=repr(opts))))
        if src_arg != before_src:
            raise self.note(Violation("C11:source-mapping-modified", detail))
        got = norm(res)
        for attempt in range(3):
            if not spurious_timeout(got, srcs):
                break
            got = norm(self.comp.compile_code(copy.deepcopy(src_arg), copy.deepcopy(before_opts)))
        if spurious_timeout(got, srcs) or spurious_timeout(fresh(srcs, vec), srcs):
            if History.stats is not None:
                History.stats.discarded["inconclusive:constexpr-child-timeout-under-load"] += 1
            return
        if key in self.earlier and self.earlier[key] != got:
            raise self.note(Violation("C11:result-differs-from-earlier-result-in-this-process", dict(detail, earlier=self.earlier[key], now=got)))
        ref = fresh(srcs, vec)
        if got != ref:
            raise self.note(Violation("C11:result-differs-from-fresh-process", dict(detail, fresh=ref, now=got)))
        # bookkeeping for the non-triviality rule
        if key in self.last_seen_at:
            between = self.compact_history[self.last_seen_at[key] + 1:]
            if any(c != vec["compact"] for c in between):
                self.flags["repeat-across-compact-switch"] = True
        self.last_seen_at[key] = len(self.compact_history)
        self.compact_history.append(vec["compact"])
        if mode == "shared" and "pytrapic:" in srcs[""]:
            self.flags["directive-with-shared-options"] = True
        self.earlier[key] = got
        st_ = History.stats
        if st_ is not None:
            st_.evaluations += 1
            st_.classes["mode:" + mode] += 1
            st_.classes["verdict:" + ("error" if "error" in got else "code")] += 1
        self.last = (srcs, bits)

    @rule(r=reqs, bits=st.sampled_from(VEC_BITS), mode=st.sampled_from(["fresh", "shared", "dict", "none"]))
    def compile(self, r, bits, mode):
        bits &= ~64  # tail_call_optimization off: many valid programs are rejected with it, which adds nothing here
        self._compile(r, bits, mode)

    @rule(i=st.integers(0, 4), bits=st.sampled_from(VEC_BITS), mode=st.sampled_from(["shared", "shared", "none"]))
    def compile_directive_source_with_shared_options(self, i, bits, mode):
        d = [r for r in self.fixed if "pytrapic:" in r[""]]
        self._compile(d[i % len(d)], bits & ~64, mode)

    @rule(i=st.integers(0, 4), bits=st.sampled_from(VEC_BITS))
    def compile_erroring(self, i, bits):
        self._compile(self.fixed[-1 - (i % 5)], bits & ~64, "fresh")

    @rule(mode=st.sampled_from(["fresh", "shared"]))
    def compile_again(self, mode):
        if getattr(self, "last", None):
            self._compile(self.last[0], self.last[1], mode)

    @rule(mode=st.sampled_from(["fresh", "shared", "dict"]))
    def interleave_compact_twin(self, mode):
        if getattr(self, "last", None):
            srcs, bits = self.last
            self._compile(srcs, bits ^ 32, mode)
            self._compile(srcs, bits, mode)

    def teardown(self):
        st_ = History.stats
        if st_ is not None and len(self.log) >= 6:
            st_.classes["histories>=6"] += 1
            for k, v in self.flags.items():
                if v:
                    st_.classes[k] += 1
            if all(self.flags.values()):
                st_.nontrivial.add(sha([e["request"] + e["mode"] for e in self.log])[:16])
                st_.sample({"history": [[e["request"], e["mode"], e["bits"], e["head"][-40:]] for e in self.log[:10]]}, limit=2)


def run_shard(ctx):
    History.stats = ctx.stats
    BRAND_NEW_ENABLED[0] = ctx.shard < 2 or not ctx.quick()
    HASHSEEDS[1] = str(1 + ctx.hyp_seed % 4294967290)
    n = ctx.scale(7, 30)
    steps = ctx.scale(16, 40)
    machine = hypothesis.seed(ctx.hyp_seed)(History)
    try:
        run_state_machine_as_test(machine, settings=settings(max_examples=n, stateful_step_count=steps, deadline=None, database=None,
                                                             suppress_health_check=list(HealthCheck), report_multiple_bugs=False, print_blob=False))
    except (Violation, hypothesis.errors.HypothesisException) as e:
        v = e if isinstance(e, Violation) else FIRST["v"]
        if v is None:
            raise
        if v.signature in ctx.known_signatures:
            ctx.stats.known[ctx.known_signatures[v.signature]] += 1
        else:
            d = dict(v.detail)
            hist = d.pop("full_history", None)
            d["reported_through"] = type(e).__name__
            ctx.stats.violations.append({"signature": v.signature, "detail": d, "case": {"sources": d.get("sources"), "options": d.get("options"),
                                         "history": hist}})
    ctx.stats.extra["fresh_process_references"] = len(FRESH)
    ctx.stats.extra["brand_new_interpreter_references"] = FRESH_STATS["brand_new"]
    ctx.stats.extra["references_repeated_under_a_second_hash_seed"] = FRESH_STATS["second_hash_seed"]
    for srv in _servers.values():
        try:
            srv.stdin.close()
            srv.wait(timeout=10)
        except Exception:
            srv.kill()
    _servers.clear()


def replay(case):
    """re-run the recorded history in this (fresh) process with all invariants; if there is none, re-run
    the final request twice and against a fresh process"""
    if case.get("history"):
        FIRST["v"] = None
        m = History()
        try:
            for step in case["history"]:
                m._compile(step["sources"], step["bits"], step["mode"])
        except Violation as v:
            d = {k: x for k, x in v.detail.items() if k != "full_history"}
            return {"kind": "violation", "signature": v.signature, "detail": d}
        return {"kind": "ok"}
    comp = repo.load()
    srcs, vec = case["sources"], case["options"]
    src_arg = dict(srcs) if len(srcs) > 1 else srcs[""]
    o = comp.CompileOptions(**vec)
    before = copy.deepcopy(o)
    a = norm(comp.compile_code(src_arg, o))
    b = norm(comp.compile_code(src_arg, o))
    if o != before:
        return {"kind": "violation", "signature": "C11:options-object-modified", "detail": {}}
    if a != b:
        return {"kind": "violation", "signature": "C11:result-differs-from-earlier-result-in-this-process", "detail": {}}
    try:
        if a != fresh(srcs, vec):
            return {"kind": "violation", "signature": "C11:result-differs-from-fresh-process", "detail": {}}
        for alt in case.get("hash_seeds", []):
            # further fresh processes with other string-hash seeds
            srv = _servers.pop(1, None)
            if srv is not None:
                srv.kill()
            HASHSEEDS[1] = str(alt)
            FRESH.clear()
            fresh(srcs, vec)
    except Violation as v:
        return {"kind": "violation", "signature": v.signature, "detail": {k: x for k, x in v.detail.items() if k != "full_history"}}
    return {"kind": "ok"}
