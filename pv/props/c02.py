"""C02 - every combination of compile options preserves behaviour (DESIGN section 2)."""
import ast

from hypothesis import strategies as st

from .. import compare, ic10vm, oracle, repo, tables
from ..gen import options as gopt
from ..gen import programs
from ..runner import Violation, hyp_search, sha

ID = "C02"
LEVEL = "exploration"
RULE = (
    "Hypothesis-constructed call-heavy programs (1 in 6 split over library modules) x option vectors over the 8 booleans (quick: default + all-true + "
    "all-false + 10 drawn vectors per program; thorough: 42 vectors per program plus all 256 vectors on a further 8 programs per shard); oracle: "
    "the effect trace of the emitted IC10 on the reference machine under each vector equals the trace under the "
    "default vector (same generated device environment) and no vector is rejected for another reason than register "
    "exhaustion; second arm: the vector given through a '# pytrapic:' line "
    "with API defaults must give textually identical code to the API arm. Non-trivial: >= 2 textually different "
    "outputs among the vectors, >= 1 non-inlined call executed in one of them, >= 3 effects; distinct by SHA-1 of "
    "(source, environment seed)."
)
ASSUMPTIONS = [
    "vectors the transpiler rejects (e.g. out of registers without inlining) are skipped and counted",
    "tail_call_optimization is only drawn for programs in which every function has no user call at all, or exactly "
    "one as its last statement, no return statement, and a callee without return value (open finding F-D11); "
    "otherwise the bit is forced off and the exclusion counted",
    "comment text is ignored by the reference machine's tokenizer ('#' outside HASH(\"..\")/STR(\"..\"))",
]
BUDGET = 40000


def nshards(tier):
    return 16


def tco_safe(src):
    tree = ast.parse(src)
    funcs = {n.name: n for n in ast.walk(tree) if isinstance(n, ast.FunctionDef)}
    has_ret = {name: any(isinstance(x, ast.Return) and x.value is not None for x in ast.walk(f)) for name, f in funcs.items()}
    for f in funcs.values():
        calls = [c for c in ast.walk(f) if isinstance(c, ast.Call) and isinstance(c.func, ast.Name) and c.func.id in funcs]
        if not calls:
            continue
        last = f.body[-1]
        if len(calls) != 1 or not (isinstance(last, ast.Expr) and last.value is calls[0]):
            return False
        if any(isinstance(x, ast.Return) for x in ast.walk(f)):
            return False
        if has_ret[calls[0].func.id]:
            return False
    return True


def run_code(code, es, pool, K):
    m = ic10vm.Machine(code, compare.make_env(es, pool), tables.enum_tables(), max_steps=BUDGET, max_effects=K)
    m.run()
    return m


def check_case(case, stats=None, K=oracle.K_QUICK):
    srcs = case["src"]
    main = srcs[""]
    safe = tco_safe(main) and not case.get("no_tco")
    base = oracle.compile_case(srcs, {})
    if "error" in base:
        if stats is not None:
            stats.evaluations += 1
            stats.discarded["reject-default"] += 1
        return
    es = case["env_seeds"][0]
    try:
        m0 = run_code(base["code"], es, case["pool"], K)
    except ic10vm.VMError as e:
        sig, extra = oracle.attribute(base, es, case["pool"], BUDGET, K)
        raise Violation(sig or ("C09:vmerror:" + e.kind), {"code": base["code"], "error": str(e), "opts": {}})
    texts = {base["code"]}
    noninlined = m0.calls_executed > 0
    for bits in case["vectors"]:
        vec = gopt.vector_from_bits(bits)
        if vec["tail_call_optimization"] and not safe:
            vec["tail_call_optimization"] = False
            if stats is not None:
                stats.excluded["tail-call-bit-forced-off(F-D11)"] += 1
        ov = gopt.overrides(vec)
        ov.setdefault("append_version", vec["append_version"])
        res = oracle.compile_case(srcs, ov)
        if stats is not None:
            stats.evaluations += 1
        if "error" in res:
            desc = res["error"]["description"]
            if not oracle.out_of_registers(desc):
                # the default vector accepted this program: an option may cost registers but must not make
                # the program unacceptable for any other reason
                raise Violation("C02:option-changes-acceptance:" + oracle.error_class(desc),
                                {"opts": ov, "error": desc[:400], "code_default": base["code"]})
            if stats is not None:
                stats.discarded["reject:registers"] += 1
            continue
        detail = {"opts": ov, "env_seed": es, "code_default": base["code"], "code": res["code"]}
        try:
            m = run_code(res["code"], es, case["pool"], K)
        except ic10vm.VMError as e:
            sig, extra = oracle.attribute(res, es, case["pool"], BUDGET, K)
            raise Violation(sig or ("C09:vmerror:" + e.kind), dict(detail, error=str(e), root=extra))
        kind, d = compare.compare_vm_vm(m0, m)
        if kind == "mismatch":
            sig = None
            for r in (res, base):
                sig, extra = oracle.attribute(r, es, case["pool"], BUDGET, K)
                if sig:
                    break
            if sig is None and "d5-arg-shape" in case.get("features", []) and bool(vec.get("inline_functions", True)) is False:
                # open finding F-D5 seen from this side: a global that the callee itself writes is passed by bare name;
                # the inlined callee aliases the global's register, the called one receives a copy.  Only the
                # comparison of an inlining with a non-inlining vector on a program of that shape gets this signature
                sig = "C02:behaviour-differs:" + d["what"] + ":inlined-parameter-aliases-global-written-by-callee"
            raise Violation(sig or ("C02:behaviour-differs:" + d["what"]),
                            dict(detail, compare=d, root=extra, trace_default=compare.jsonable(m0.trace[:10]),
                                 trace=compare.jsonable(m.trace[:10])))
        if kind == "inconclusive" and stats is not None:
            stats.discarded["inconclusive"] += 1
        texts.add(res["code"])
        noninlined = noninlined or m.calls_executed > 0
        # pragma arm: same vector through an in-source directive, API defaults
        if bits in case.get("pragma_vectors", []):
            line = gopt.pragma_line(vec)
            twin = line.replace("pytrapic:", "pytrapiq:")
            s_dir = dict(srcs)
            s_api = dict(srcs)
            s_dir[""] = line + "\n" + main
            s_api[""] = twin + "\n" + main
            comp = repo.load()
            r_dir = comp.compile_code(s_dir, comp.CompileOptions())
            r_api = comp.compile_code(s_api, comp.CompileOptions(**vec))
            if stats is not None:
                stats.classes["pragma-arm"] += 1
            if oracle.public(r_dir) != oracle.public(r_api):
                raise Violation("C02:pragma-arm-differs-from-api-arm", {"opts": vec, "directive": line,
                                "result_directive": oracle.public(r_dir), "result_api": oracle.public(r_api)})
    if stats is not None:
        stats.classes["programs"] += 1
        if len(texts) >= 2:
            stats.classes["textually-different-outputs>=2"] += 1
        if safe:
            stats.classes["tco-safe-program"] += 1
        if len(texts) >= 2 and noninlined and len(m0.trace) >= 3:
            stats.nontrivial.add(sha([srcs, es])[:16])
            stats.sample({"source": main, "vectors": case["vectors"][:4], "distinct_outputs": len(texts),
                          "first_effects": compare.jsonable(m0.trace[:3])}, limit=3)


@st.composite
def cases(draw, nvec, all256=False):
    cfg = programs.Cfg(call_bias=25, tail_call_bias=40, max_funcs=4, max_params=3, d5_args=draw(st.booleans()),
                       nested_arg_pct=draw(st.sampled_from([20, 70])))
    k = draw(st.integers(0, 6))
    if k == 6:
        # C06's call graphs: calls with arguments nested in any argument position, several call sites per function
        # (so that calls stay real calls under the default vector as well), early returns around inner calls
        from ..gen import callgraph
        c = draw(st.one_of(callgraph.callgraph_cases(nenv=1), callgraph.chain_cases(nenv=1)))
    elif k == 5:
        # programs split over library modules (source comments must come from the right file, labels are qualified)
        from . import c13
        mc = draw(c13.cases())
        c = {"src": c13.render(mc)[0], "env_seeds": mc["env_seeds"], "pool": compare.DEFAULT_POOL, "features": ["library-modules"], "no_tco": True}
    elif k == 0:
        from ..gen import callgraph
        c = draw(callgraph.tailcall_cases(nenv=1))
    else:
        c = draw(programs.program_cases(cfg, nenv=1))
    if all256:
        vecs = list(range(256))
    else:
        vecs = [0, 255] + [draw(st.integers(0, 255)) for _ in range(nvec)]
    c["vectors"] = vecs
    c["pragma_vectors"] = vecs[2:5] if not all256 else vecs[::37]
    return c


def run_shard(ctx):
    K = ctx.scale(oracle.K_QUICK, 80)
    if ctx.quick():
        hyp_search(ctx, cases(10), lambda c: check_case(c, ctx.stats, K), 22)
    else:
        hyp_search(ctx, cases(40), lambda c: check_case(c, ctx.stats, K), 90)
        hyp_search(ctx, cases(0, all256=True), lambda c: check_case(c, ctx.stats, K), 8, label="all256")


def replay(case):
    try:
        check_case(case, None, case.get("K", oracle.K_QUICK))
    except Violation as v:
        return {"kind": "violation", "signature": v.signature, "detail": v.detail}
    return {"kind": "ok"}
