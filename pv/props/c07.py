"""C07 - when the top-level script finishes, nothing else runs (DESIGN section 7)."""
from .. import compare, diag, ic10vm, oracle, repo, srcinterp, tables
from ..gen import programs
from ..runner import Violation, hyp_search, sha

ID = "C07"
LEVEL = "exploration"
RULE = (
    "Hypothesis-constructed programs whose top-level code terminates (straight-line, bounded loops, loops left by "
    "break on a device value) and that define functions (called twice or with inlining off so they are emitted), "
    "under both calling conventions and label modes; oracle: on the reference machine with a region map from the "
    "PYTRAPIC_VERIF hook, a function region is entered only by a call / return / jump from inside a function, the "
    "machine halts after the last main instruction with no further effect, and the effect trace up to there equals "
    "the reference interpreter's. Non-trivial: main ran to its last instruction, at least one non-inlined call was "
    "executed before, and at least one function is emitted after the main code; distinct by SHA-1 of "
    "(source, options, environment seed)."
)
ASSUMPTIONS = [
    "region map = the emitted-function tag of each instruction exported by the PYTRAPIC_VERIF hook",
    "known finding F-D1 (fall-through of main into the first function) is reported once and its hits are counted; "
    "to keep checking everything else the machine is stopped at that fall-through as if a terminator were present",
]

VECTORS = [
    {},
    {"compact": True},
    {"inline_functions": False},
    {"use_push_pop_functions": True},
    {"inline_functions": False, "use_push_pop_functions": True, "remove_labels": True},
    {"remove_labels": True, "compact": True},
    # tail-call rewrite: judged only where open finding F-D11 (C06) cannot interfere, see check_case
    {"tail_call_optimization": True},
    {"tail_call_optimization": True, "compact": True},
]


def nshards(tier):
    return 16


def check_case(case, stats=None, K=oracle.K_QUICK, known=None):
    srcs, opts = case["src"], dict(case.get("opts") or {})
    res = oracle.compile_case(srcs, opts)
    if "error" in res:
        if stats is not None:
            stats.evaluations += 1
            desc = res["error"].get("description", "")
            stats.discarded["reject:" + ("registers" if oracle.out_of_registers(desc) else oracle.norm_error(desc))] += 1
        return
    v = res.get("_verif")
    if not v:
        raise repo.HarnessError("PYTRAPIC_VERIF hook output missing")
    if opts.get("tail_call_optimization") and len({r.get("region") or "" for r in v["instructions"]}) > 1:
        from .c02 import tco_safe

        if not tco_safe(srcs[""]):
            # a function with an early return or a second call came out of line: with the tail-call bit that is the
            # shape of open finding F-D11; the program is judged without the bit (when everything is inlined there is
            # no return address to lose, and the bit stays on)
            opts["tail_call_optimization"] = False
            if stats is not None:
                stats.excluded["tail-call-bit-forced-off(F-D11)"] += 1
            res = oracle.compile_case(srcs, opts)
            if "error" in res:
                return
            v = res["_verif"]
    recmap = diag.align(res["code"], v["instructions"])
    regions = {r.get("region") or "" for r in v["instructions"]}
    pending = None
    for es in case["env_seeds"]:
        env = compare.make_env(es, case["pool"])
        it = srcinterp.Interp(srcs, env, max_steps=20000, max_effects=K)
        try:
            it.run()
        except (srcinterp.Unsupported, srcinterp.SrcError) as e:
            if stats is not None:
                stats.evaluations += 1
                stats.discarded[type(e).__name__] += 1
            return
        if stats is not None:
            stats.evaluations += 1
        if it.nan_compare:
            if stats is not None:
                stats.discarded["nan"] += 1
            continue
        m = ic10vm.Machine(res["code"], env, tables.enum_tables(), max_steps=compare.vm_budget(it.steps), max_effects=K)
        rm = diag.RegionMonitor(m, recmap, stop_on_fallthrough=True)
        tm = diag.TagMonitor(m, recmap)
        detail = {"env_seed": es, "code": res["code"], "opts": opts}
        try:
            m.run()
        except ic10vm.VMError as e:
            raise Violation("C09:vmerror:" + e.kind, dict(detail, error=str(e)))
        fell = m.halted == "fallthrough"
        others = [x for x in rm.violations if not (x["kind"] == "seq" and x["from_scope"] == "")]
        if others:
            x = others[0]
            raise Violation(f"C07:{x['kind']}:{'main' if x['from_scope'] == '' else 'function'}-into-function",
                            dict(detail, transition=x))
        if fell:
            m.halted = "end"
        kind, d = compare.compare_src_vm(it, m)
        if kind == "mismatch" and "d5-arg-shape" in case.get("features", []):
            kind = "skipped"
            if stats is not None:
                stats.discarded["source-comparison-skipped(F-D5 shape)"] += 1
        if kind == "mismatch":
            sig, extra = oracle.attribute(res, es, case["pool"], compare.vm_budget(it.steps), K)
            if tm.clobbers and (sig is None or sig.startswith("C07:fallthrough")):
                # the expected fall-through (F-D1) hides the register clobber that explains the difference
                sig, extra = oracle.clobber_signature(tm.clobbers[0], v["instructions"]), {"clobber": tm.clobbers[0]}
            if sig and sig.startswith("C04:clobber"):
                sig += oracle.clobber_shape_suffix(srcs, sig, (extra or {}).get("clobber"))
            if sig is None or sig.startswith("C07:fallthrough"):
                sig = "C07:trace-differs-before-main-ends:" + d["what"] if it.halted == "end" else "C01:mismatch:" + d["what"]
            raise Violation(sig, dict(detail, compare=d, root=extra,
                                      src_trace=compare.jsonable(it.trace[:10]), vm_trace=compare.jsonable(m.trace[:10])))
        if fell:
            pending = Violation("C07:fallthrough:main-into-function", dict(detail, transition=rm.violations[0]))
        if stats is not None and kind == "ok" and it.halted == "end":
            if m.calls_executed > 0 and len(regions) > 1:
                stats.nontrivial.add(sha([srcs, opts, es])[:16])
                stats.classes["main-ended-after-call"] += 1
                stats.sample({"source": srcs[""], "options": opts, "env_seed": es, "effects": compare.jsonable(it.trace[:4])}, limit=3)
            if fell:
                stats.classes["fell-through(D1)"] += 1
            elif len(regions) > 1:
                stats.classes["halted-cleanly-with-functions-emitted"] += 1
            else:
                stats.classes["no-function-emitted"] += 1
    if pending is not None:
        raise pending


@programs.st.composite
def cases(draw):
    # d5_args: the region/halting oracle does not depend on source semantics, so the aliasing shape of
    # open finding F-D5 (a writable global passed by bare name) may be generated; for such programs the
    # comparison with the source interpreter is skipped
    cfg = programs.Cfg(terminating_main=True, terminating_with_funcs=True, main_stmts=3, max_funcs=3, min_funcs=1, call_twice_pct=70, call_bias=15, max_params=2, func_stmts=2, d5_args=draw(programs.st.integers(0, 2)) > 0, nested_defs=True)
    c = draw(programs.program_cases(cfg))
    c["opts"] = VECTORS[draw(programs.st.integers(0, len(VECTORS) - 1))]
    return c


def run_shard(ctx):
    K = ctx.scale(oracle.K_QUICK, oracle.K_THOROUGH)
    n = ctx.scale(110, 1000)
    hyp_search(ctx, cases(), lambda c: check_case(c, ctx.stats, K), n)


def replay(case):
    try:
        check_case(case, None, case.get("K", oracle.K_QUICK))
    except Violation as v:
        return {"kind": "violation", "signature": v.signature, "detail": v.detail}
    return {"kind": "ok"}
