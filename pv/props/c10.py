"""C10 - compile_code always returns a verdict, promptly, and cleans up (DESIGN section 10)."""
import glob
import os
import re
import signal
import time

from hypothesis import strategies as st

from .. import repo
from ..gen import options as gopt
from ..gen import programs
from ..runner import Violation, hyp_search, sha
from . import c17

ID = "C10"
LEVEL = "exploration"
DEADLINE = {"quick": 900}  # a hang inside C code (regular expressions) is only seen when this runs out
STUCK_S = 200  # a single case may legitimately take this long (seconds) before the runner calls it stuck
WORKERS = 3
RULE = (
    "Generated inputs: (a) arbitrary text (st.text incl. NUL/BOM/astral, latin-1 decoded binary), (b) keystroke model: "
    "every kind of prefix and single edit (delete/insert/duplicate/swap a token or line) of valid generated programs "
    "and of the repository's examples, (c) dialect-invalid Python from a list of unsupported constructs, recursion, "
    "undefined names, wrong arity, Lua-looking prefixes, (d) constexpr bodies that raise, divide by zero, print, return "
    "non-JSON values, recurse deeply, call sys.exit, never terminate, mention open/eval/exec, (e) options as dataclass "
    "and as dict over all 8 booleans. Oracle: the call returns within a generous cap (20 s of the process's own CPU time and 120 s of wall-clock time, + 1.5 s / 9 s per constexpr call; "
    "a cap hit is a violation only if it reproduces), raises nothing, returns a dict with exactly one of code/error; "
    "code comes with non-negative consistent statistics (C17 recount), error with a non-empty description and, if a "
    "line is given, a position inside the submitted text; afterwards the process has no child process left. "
    "Non-trivial: the input got beyond the parser (no syntax error) or exercised a constexpr child; distinct by SHA-1 "
    "of the input."
)
ASSUMPTIONS = [
    "runs with the real astroid inference (no harness speed instrumentation)",
    "positions: 1-based or 0-based line and column conventions are both admitted, line <= number of lines + 1",
    "the caps are generous (CPU time of the calling process, so that a loaded machine does not matter; wall-clock time for calls that wait without computing) and a single cap hit is re-tried twice before it counts",
]
os.environ.setdefault("PV_FAST_INFER", "0")


def nshards(tier):
    return 12 if tier == "quick" else 14  # thorough: shards 12 and 13 are the two coverage-guided campaigns


class Hang(BaseException):
    pass


WALL_FACTOR = 6


def _alarm(signum, frame):
    raise Hang()


def children():
    out = []
    for f in glob.glob(f"/proc/{os.getpid()}/task/*/children"):
        try:
            out += open(f).read().split()
        except OSError:
            pass
    return out


def call(src, opts, cap):
    comp = repo.load()
    # two limits: `cap` seconds of this process's own CPU time (what the call costs, whatever else the machine is
    # doing) and WALL_FACTOR x cap seconds of wall-clock time (a call that waits for ever without computing)
    signal.signal(signal.SIGALRM, _alarm)
    signal.signal(signal.SIGPROF, _alarm)
    # both timers fire again every second after the cap: a first signal that lands in a place where Python discards
    # exceptions (a garbage-collector callback, a __del__) must not leave the call without a limit
    signal.setitimer(signal.ITIMER_PROF, cap, 1.0)
    signal.setitimer(signal.ITIMER_REAL, cap * WALL_FACTOR, 1.0)
    t0 = time.time()
    out = None
    try:
        try:
            out = ("returned", comp.compile_code(src, opts), time.time() - t0)
        except Hang:
            out = ("hang", None, time.time() - t0)
        except BaseException as e:  # noqa
            out = ("raised", e, time.time() - t0)
    except Hang:  # fired again between the handler above and the clearing below
        pass
    while True:
        try:
            signal.setitimer(signal.ITIMER_PROF, 0)
            signal.setitimer(signal.ITIMER_REAL, 0)
            break
        except Hang:
            continue
    return out if out is not None else ("hang", None, time.time() - t0)


def make_opts(spec):
    comp = repo.load()
    if spec is None:
        return None
    if spec["as"] == "dict":
        return dict(spec["values"])
    return comp.CompileOptions(**spec["values"])


def lines_of(t):
    """lines as the Python tokenizer counts them: \\r\\n, \\r and \\n all end a line"""
    return re.split(r"\r\n|\r|\n", t)


def check_result(res, src):
    if not isinstance(res, dict):
        return "C10:result-is-not-a-dict", {"type": type(res).__name__}
    has_code, has_err = "code" in res, "error" in res
    if has_code == has_err:
        return "C10:result-has-not-exactly-one-of-code-and-error", {"keys": sorted(res)}
    texts = list(src.values()) if isinstance(src, dict) else [src]
    if has_code:
        if not isinstance(res["code"], str):
            return "C10:code-is-not-text", {}
        for k in ("num_lines", "num_bytes", "num_registers"):
            if not isinstance(res.get(k), int) or isinstance(res.get(k), bool) or res[k] < 0:
                return f"C10:{k}-not-a-non-negative-int", {"value": repr(res.get(k))}
        nl, nb, regs = c17.recount(res)
        if res["num_lines"] != nl or res["num_bytes"] not in nb or res["num_registers"] > 16:
            return "C10:statistics-inconsistent-with-code", {"reported": [res["num_lines"], res["num_bytes"], res["num_registers"]], "recount": [nl, sorted(nb)]}
        return None
    err = res["error"]
    if not isinstance(err, dict) or not isinstance(err.get("description"), str) or not err["description"].strip():
        return "C10:error-without-description", {"error": repr(err)[:200]}
    line = err.get("line")
    if line is not None:
        if not isinstance(line, int) or isinstance(line, bool):
            return "C10:error-line-not-an-int", {"line": repr(line)}
        maxl = max(len(lines_of(t)) for t in texts) if texts else 0
        if not 0 <= line <= maxl + 1:
            return "C10:error-position-outside-text", {"line": line, "lines_in_text": maxl, "description": err["description"][:200]}
        col = err.get("column")
        if isinstance(col, int) and not isinstance(col, bool):
            cand = []
            for t in texts:
                ls = lines_of(t)
                for ln in (line - 1, line):
                    if 0 <= ln < len(ls):
                        cand.append(len(ls[ln]))
            lim = (max(cand) if cand else 0) + 1
            if not 0 <= col <= lim:
                return "C10:error-column-outside-line", {"line": line, "column": col, "line_length_limit": lim, "description": err["description"][:200]}
    return None


def check_case(case, stats=None):
    src = case["src"]
    ncx = case.get("constexpr_calls", 0)
    cap = 20 + 1.5 * ncx
    opts = make_opts(case.get("opts"))
    before = set(children())  # e.g. the multiprocessing resource tracker when run in the parent process
    how, res, dt = call(src, opts, cap)
    if how == "hang":
        # a single cap hit may be machine load: try twice more and judge the first call that returns
        for _ in range(2):
            how, res, dt = call(src, make_opts(case.get("opts")), cap)
            if how != "hang":
                break
        if how == "hang":
            raise Violation("C10:does-not-return-within-cap", {"cap_s": cap})
        if stats is not None:
            stats.notes["cap-hit-not-reproducible"] += 1
    if stats is not None:
        stats.evaluations += 1
    if how == "raised":
        raise Violation("C10:compile_code-raises:" + type(res).__name__, {"error": repr(res)[:300]})
    kids = set(children()) - before
    if kids:
        time.sleep(0.25)
        kids = set(children()) - before
        if kids:
            for k in kids:
                # reported, then removed: a leaked helper that spins would otherwise load the machine for ever
                try:
                    os.kill(int(k), 9)
                except (OSError, ValueError):
                    pass
            raise Violation("C10:helper-process-left-running", {"children": sorted(kids)})
    bad = check_result(res, src)
    if bad:
        raise Violation(bad[0], bad[1])
    if stats is not None:
        fam = case.get("family", "?")
        stats.classes["family:" + fam] += 1
        desc = res.get("error", {}).get("description", "") if "error" in res else ""
        kind = "code" if "code" in res else ("syntax-error" if desc.startswith("Syntax error") else "internal-error" if desc.startswith("Internal compiler error") else "compiler-error")
        stats.classes["verdict:" + kind] += 1
        if dt > 5:
            stats.classes["slower-than-5s"] += 1
        if kind != "syntax-error" or ncx:
            stats.nontrivial.add(sha(src)[:16])
            if kind != "code":
                stats.sample({"family": fam, "source_tail": (src if isinstance(src, str) else src[""])[-160:], "verdict": kind, "description": desc[:120]}, limit=4)


# ---------------------------------------------------------------- generators
INVALID = [
    "class A:\n    pass\n", "f = lambda x: x + 1\ndb.Setting = f(1)\n", "try:\n    db.Setting = 1\nexcept Exception:\n    pass\n",
    "with d0 as x:\n    pass\n", "db.Setting = [i for i in range(3)][0]\n", "db.Setting = f\"{1}\"\n", "if (n := d0.Setting) > 1:\n    db.Setting = n\n",
    "def f(*a):\n    return 1\ndb.Setting = f(1)\n", "def f(a):\n    return a\ndb.Setting = f(a=1)\n", "@staticmethod\ndef f():\n    pass\nf()\n",
    "def f():\n    def g():\n        return 1\n    return g()\ndb.Setting = f()\n", "a, b = 1, 2\ndb.Setting = a\n", "db.Setting = 1 < d0.Setting < 3\n",
    "x = 1\ndel x\n", "assert d0.Setting\n", "raise ValueError()\n", "import os\n", "from os import path\n", "def f(a):\n    db.Setting = a\n    f(a)\nf(1)\n",
    "db.Setting = undefined_name + 1\n", "def f(a, b):\n    return a\ndb.Setting = f(1)\n", "def f(a):\n    return a\ndb.Setting = f(ArcFurnace(d0))\n",
    "-- lua\nlocal x = 1\n", "require('x')\n", "db.Setting = {1: 2}[1]\n", "db.Setting = 'abc' + 1\n", "x = d0\nx = d1\n", "d0 = 1\n", "yield_ = 3\n",
    "while d0.Setting:\n    pass\n", "for i in d0:\n    pass\n", "for i in range():\n    pass\n", "db.Setting = 1 if d0.On else\n", "def f(:\n", "\tdb.Setting = 1\n  x = 2\n",
    "db.Setting = ~d0.Setting\n", "db.Setting = d0.Setting // 2\n", "db.Setting = d0.Setting | 2\n", "db.Setting = -(-(-(-(d0.Setting))))\n", "global x\nx = 1\n",
    "db.Setting = (" * 60 + "1" + ")" * 60 + "\n", "db.Setting = " + "+".join(["d0.Setting"] * 60) + "\n", "db.Setting = 1e999\n", "db.Setting = 1e300 * 1e300\n",
    "db.Setting = (-8) ** 0.5\n", "db.Setting = 1 / 0\n", "db.Setting = 5 % 0\n", "db.Setting = [1, 2][5]\n", "db.Setting = sqrt(-1)\n", "db.Setting = HASH(3)\n",
    "db.Setting = HASH()\n", "db.Setting = STR(\"abcdefghijklmnop\")\n", "x = Stack(d0, d1, d2)\n", "db.NoSuchThing.Other = 1\n", "ArcFurnace.On = 1\n",
    "db.Setting = LogicType.NoSuch\n", "s(1)\n", "lb(1)\n", "alias(1, 2)\n", "define(\"x\")\n", "db.Setting = d0.Setting if else 1\n", "return 5\n", "break\n", "continue\n",
    "def f():\n    yield 1\n", "async def f():\n    pass\n", "db.Setting: int = 1\n", "x: int\n", "db.Setting = ...\n", "db.Setting = None\n", "db.Setting = b'ab'\n",
    "db.Setting = 1j\n", "print(1)\n", "db.Setting = len('abc')\n", "db.Setting = d0.Setting.real\n", "db.Setting = stack\n", "db.Setting = stack[1:2]\n",
    "# pytrapic: compact\n# pytrapic: __class__, __init__, no-__dict__\ndb.Setting = 1\n", "from library import nope\n", "import library\n",
]
CONSTEXPR = [
    ("raise ValueError('x')", 1), ("return 1 / 0", 1), ("print('hello')\n    return a", 1), ("return {1, 2}", 1), ("return lambda: 1", 1),
    ("return float('nan')", 1), ("return float('inf')", 1), ("return [a, a]", 1), ("return 'text'", 1), ("return None", 1), ("return {'k': a}", 1),
    ("def r(n):\n        return r(n + 1)\n    return r(0)", 1), ("import sys\n    sys.exit(3)", 1), ("import sys\n    sys.exit(0)", 1),
    ("while True:\n        pass\n    return a", 1), ("import time\n    time.sleep(3)\n    return a", 1), ("return open('/etc/passwd').read()", 1),
    ("return eval('1')", 1), ("exec('x = 1')\n    return a", 1), ("return a", 2), ("return 2 ** 100000", 1), ("return 'x' * 10 ** 7", 1),
    ("import os\n    os._exit(0)", 1), ("import sys\n    sys.stdout.write('1')\n    return a", 1), ("return a.nope", 1), ("return undefined", 1),
]


def corpus():
    out = []
    for f in sorted(glob.glob(os.path.join(repo.REPO, "test", "cases", "*.py"))) + sorted(glob.glob(os.path.join(repo.SRC, "stationeers_pytrapic", "examples", "*.py"))):
        if not f.endswith("__init__.py") and "constexpr" not in f:
            out.append(open(f, encoding="utf-8").read())
    return out


_corpus = None


@st.composite
def option_spec(draw):
    k = draw(st.integers(0, 3))
    if k == 0:
        return None
    vals = {n: draw(st.sampled_from([True, False, True, False, 0, 1])) for n in repo.OPTION_NAMES if draw(st.booleans())}
    return {"as": "dict" if k == 1 else "dataclass", "values": vals}


@st.composite
def cases(draw):
    global _corpus
    if _corpus is None:
        _corpus = corpus()
    k = draw(st.integers(0, 19))
    opts = draw(option_spec())
    if k <= 2:
        t = draw(st.one_of(st.text(max_size=200), st.binary(max_size=200).map(lambda b: b.decode("latin-1")),
                           st.text(alphabet="\x00\ufeff\U0001f600 \n\t#:()=", max_size=60)))
        return {"src": t, "opts": opts, "family": "arbitrary-text"}
    if k <= 10:
        if draw(st.booleans()):
            base = draw(programs.program_cases(programs.Cfg(call_bias=10, max_funcs=2), nenv=0))["src"][""]
        else:
            base = _corpus[draw(st.integers(0, len(_corpus) - 1))]
        e = draw(st.integers(0, 6))
        if e == 0:
            cut = draw(st.integers(0, len(base)))
            return {"src": base[:cut], "opts": opts, "family": "prefix"}
        toks = base.split(" ")
        lines = base.split("\n")
        if e == 1 and len(toks) > 1:
            i = draw(st.integers(0, len(toks) - 1))
            del toks[i]
            return {"src": " ".join(toks), "opts": opts, "family": "delete-token"}
        if e == 2:
            i = draw(st.integers(0, len(toks) - 1))
            toks.insert(i, draw(st.sampled_from(["(", ")", ":", "=", "def", "if", "1", "x", ",", ".", "[", "\n", "    ", "return", "#", '"', "and", "not", "-", "*"])))
            return {"src": " ".join(toks), "opts": opts, "family": "insert-token"}
        if e == 3:
            i = draw(st.integers(0, len(lines) - 1))
            lines.insert(i, lines[i])
            return {"src": "\n".join(lines), "opts": opts, "family": "duplicate-line"}
        if e == 4 and len(lines) > 1:
            i = draw(st.integers(0, len(lines) - 2))
            lines[i], lines[i + 1] = lines[i + 1], lines[i]
            return {"src": "\n".join(lines), "opts": opts, "family": "swap-lines"}
        if e == 5 and len(lines) > 1:
            i = draw(st.integers(0, len(lines) - 1))
            del lines[i]
            return {"src": "\n".join(lines), "opts": opts, "family": "delete-line"}
        i = draw(st.integers(0, len(lines) - 1))
        lines[i] = draw(st.sampled_from(["    ", "  ", "\t", ""])) + lines[i].lstrip()
        return {"src": "\n".join(lines), "opts": opts, "family": "reindent-line"}
    if k <= 16:
        snippet = INVALID[draw(st.integers(0, len(INVALID) - 1))]
        hdr = programs.HDR if not snippet.startswith(("--", "require")) else ""
        if draw(st.integers(0, 3)) == 0:
            # the faulty line sits in a library, often far below the last line of the (short) main file
            pad = "".join("# filler %d\n" % j for j in range(draw(st.sampled_from([0, 1, 2, 5, 12, 40]))))
            return {"src": {"": hdr + "from library import m\nm.f(1)\n", "m": programs.HDR + pad + snippet}, "opts": opts, "family": "invalid-in-library"}
        return {"src": hdr + snippet, "opts": opts, "family": "dialect-invalid"}
    if k == 17:
        # option comments: well-formed lists with trailing remarks / odd separators / many names
        names = [draw(st.sampled_from(repo.OPTION_NAMES + ["no-" + n.replace("_", "-") for n in repo.OPTION_NAMES] + ["unknown_option", "x"]))
                 for _ in range(draw(st.integers(1, 8)))]
        sep = draw(st.sampled_from([", ", ",", " , ", " ", "; ", ",,"]))
        tail = draw(st.sampled_from(["", " (smaller output)", ".", " = true", "!", " # again", "\t", " -- note", ":", "'"]))
        lead = draw(st.sampled_from(["# pytrapic: ", "#pytrapic:", "  # note pytrapic: ", "# pytrapic:pytrapic: "]))
        line = lead + sep.join(names) + tail
        return {"src": line + "\n" + programs.HDR + "db.Setting = 1\n", "opts": opts, "family": "directive-line"}
    body, n = CONSTEXPR[draw(st.integers(0, len(CONSTEXPR) - 1))]
    src = programs.HDR + f"@constexpr\ndef cx(a):\n    {body}\n" + "".join(f"d{i}.Setting = cx({i + draw(st.integers(0, 50))})\n" for i in range(n))
    return {"src": src, "opts": opts, "family": "constexpr-body", "constexpr_calls": n}


def ensure_atheris():
    """atheris lives in /verif/.deps (untracked): installed from the offline wheelhouse on first use"""
    import subprocess
    import sys

    from ..runner import ROOT

    deps = os.path.join(ROOT, ".deps")
    probe = [sys.executable, "-c", "import sys; sys.path.insert(0, %r); import atheris" % deps]
    if subprocess.run(probe, capture_output=True).returncode == 0:
        return None
    r = subprocess.run([sys.executable, "-m", "pip", "install", "-q", "--no-index", "--find-links", "/opt/veriftools/wheels", "--target", deps, "atheris"],
                       capture_output=True, text=True)
    if subprocess.run(probe, capture_output=True).returncode == 0:
        return None
    return (r.stderr or r.stdout or "import failed")[-300:]


def fuzz_campaign(ctx, mode, runs):
    """one atheris/libFuzzer campaign (pv/fuzz_c10.py) in a process of its own; its counters join the shard's"""
    import json
    import shutil
    import subprocess
    import sys
    import tempfile

    from ..runner import HarnessError

    why = ensure_atheris()
    if why:
        raise HarnessError("atheris cannot be installed from the offline wheelhouse: " + why)
    from ..runner import WORK_DIR

    os.makedirs(os.path.join(WORK_DIR, ID), exist_ok=True)
    out = tempfile.mkdtemp(prefix="fuzz_%s_" % mode, dir=os.path.join(WORK_DIR, ID))
    try:
        ctx.crumb({"family": "atheris-campaign", "mode": mode, "src": ""})
        limit = float(os.environ.get("PV_FUZZ_LIMIT") or max(1800, runs * 0.5))
        try:
            p = subprocess.run([sys.executable, "-m", "pv.fuzz_c10", out, str(runs), str(ctx.seed), mode], capture_output=True, text=True, timeout=limit)
        except subprocess.TimeoutExpired:
            # the campaign did not finish: a case that has been running for minutes is a hang of the code under test
            cur = os.path.join(out, "current.json")
            age = time.time() - os.path.getmtime(cur) if os.path.exists(cur) else 0
            if age > STUCK_S:
                with open(cur) as f:
                    case = json.load(f)
                ctx.stats.violations.append({"signature": "C10:does-not-return-within-cap", "case": case,
                                             "detail": {"stuck_for_s": round(age), "found_by": "atheris-" + mode}})
                return
            raise HarnessError("fuzz campaign (%s, %d runs) exceeded %d s without a stuck case" % (mode, runs, limit))
        try:
            with open(os.path.join(out, "summary.json")) as f:
                summ = json.load(f)
        except OSError:
            raise HarnessError("fuzz campaign left no summary (exit %s): %s" % (p.returncode, (p.stderr or "")[-600:]))
        ctx.stats.evaluations += summ["evaluations"]
        ctx.stats.nontrivial.update(summ["nontrivial"])
        ctx.stats.classes.update(summ["classes"])
        ctx.stats.notes.update(summ["notes"])
        for smp in summ["samples"][:2]:
            ctx.stats.sample(smp, limit=6)
        corpus_n = len(os.listdir(os.path.join(out, "corpus")))
        ctx.stats.extra.setdefault("coverage_guided_campaigns", []).append(
            {"mode": mode, "runs_requested": runs, "executions": summ["executions"], "corpus_units_kept_by_coverage": corpus_n,
             "libfuzzer_exit": p.returncode})
        vf = os.path.join(out, "violation.json")
        if os.path.exists(vf):
            with open(vf) as f:
                v = json.load(f)
            # judged again in this process, outside the fuzzer: only what reproduces from the saved input counts
            r = replay(v["case"])
            if r["kind"] == "violation":
                ctx.stats.violations.append({"signature": r["signature"], "detail": dict(r["detail"], found_by="atheris-" + mode), "case": v["case"]})
            else:
                ctx.stats.notes["fuzzer-violation-not-reproducible:" + v["signature"]] += 1
        elif p.returncode != 0:
            # libFuzzer itself died (its own crash/timeout/leak report): the input it saved is judged like any other
            ctx.stats.notes["libfuzzer-exit-%s" % p.returncode] += 1
    finally:
        shutil.rmtree(out, ignore_errors=True)


def run_shard(ctx):
    if ctx.shard == 12:
        return fuzz_campaign(ctx, "tokens", 25000)
    if ctx.shard == 13:
        return fuzz_campaign(ctx, "hypothesis", 20000)
    if ctx.shard == 0:
        # all 256 vectors, as dataclass and as dict, on one program
        base = programs.HDR + "def f(a):\n    db.Setting = a + LogicType.On\nwhile True:\n    f(1)\n    f(d0.Setting)\n    yield_()\n"
        for bits in range(0, 256, 1 if not ctx.quick() else 5):
            for how in ("dict", "dataclass"):
                c = {"src": base, "opts": {"as": how, "values": gopt.vector_from_bits(bits)}, "family": "all-option-vectors"}
                try:
                    check_case(c, ctx.stats)
                except Violation as v:
                    ctx.stats.violations.append({"signature": v.signature, "detail": v.detail, "case": c})
    hyp_search(ctx, cases(), lambda c: check_case(c, ctx.stats), ctx.scale(80, 1500), case_cap=0)


def replay(case):
    try:
        check_case(case, None)
    except Violation as v:
        return {"kind": "violation", "signature": v.signature, "detail": v.detail}
    return {"kind": "ok"}
