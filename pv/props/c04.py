"""C04 - register allocation never lets one live value overwrite another (DESIGN section 4)."""
import re

from hypothesis import strategies as st

from .. import compare, diag, ic10vm, oracle, repo, tables
from ..gen import callgraph, programs
from ..runner import Violation, hyp_search, sha

ID = "C04"
LEVEL = "exploration"
RULE = (
    "Hypothesis-constructed lifetime shapes (nested loops with loop-carried variables, values live across 1-3 levels "
    "of calls incl. register-less intermediate functions, long expressions, k simultaneously live locals for k "
    "straddling 16, register-held device ids, list-loop bodies, programs split over library modules, directly recursive functions [rejected today; if ever accepted they are compared with the reference interpreter]) x {inline, push/pop, remove_labels}; oracle: "
    "provenance tags on the reference machine - with the virtual register names exported by the PYTRAPIC_VERIF hook, "
    "every executed register read must find the tag of the virtual register that operand denotes (a clobber that was "
    "actually read); plus a token scan (only r0-r15, sp, ra) and: a program is either rejected with the "
    "out-of-registers error or passes. Non-trivial: >= 6 distinct virtual registers, >= 1 physical register shared by "
    ">= 2 virtuals (reuse happened) and a call or loop executed; distinct by SHA-1 of (source, options, env seed)."
)
ASSUMPTIONS = [
    "virtual register identity per operand is what the PYTRAPIC_VERIF hook exports before physical assignment",
    "variables the transpiler deliberately aliases share one virtual name and are not flagged here (C01's F-D5)",
    "reads of a register that was never written are ignored (the source would be ill-defined Python)",
]
VECS = [{}, {"inline_functions": False}, {"use_push_pop_functions": True}, {"inline_functions": False, "use_push_pop_functions": True},
        {"remove_labels": True}, {"inline_functions": False, "remove_labels": True, "compact": True}]
REGTOK = re.compile(r"^(r\d+|sp|ra)$")
ANYREG = re.compile(r"^r\d+$")


def nshards(tier):
    return 16


def token_scan(code):
    for ln, line in enumerate(code.split("\n")):
        for t in ic10vm.tokenize(line)[1:]:
            if ANYREG.match(t) and int(t[1:]) > 15:
                return ln, t
            if t.startswith("__register") or "__register." in t:
                return ln, t
    return None


def check_case(case, stats=None, K=oracle.K_QUICK):
    srcs, opts = case["src"], dict(case.get("opts") or {})
    res = oracle.compile_case(srcs, opts)
    if stats is not None:
        stats.evaluations += 1
    if "error" in res:
        desc = res["error"]["description"]
        if case.get("expect") == "compile-or-out-of-registers" and not oracle.out_of_registers(desc):
            raise Violation("C04:rejected-for-another-reason:" + oracle.norm_error(desc), {"opts": opts, "error": desc[:400]})
        if stats is not None:
            stats.discarded["reject:" + ("registers" if oracle.out_of_registers(desc) else oracle.norm_error(desc))] += 1
            if oracle.out_of_registers(desc):
                stats.classes["rejected-out-of-registers"] += 1
                if case.get("locals"):
                    stats.classes["rejected-with-locals=%d" % case["locals"]] += 1
        return
    if case.get("inlined_only") and any(re.search(r"^\s*(j|jal)\s+%s\s*$" % f, res["code"], re.M) or re.search(r"^%s:" % f, res["code"], re.M)
                                        for f in case["inlined_only"]):
        # the function came out of line after all: its tail call is the shape of open finding F-D11 (C06)
        if stats is not None:
            stats.excluded["tail-call-function-not-inlined(F-D11)"] += 1
        return
    bad = token_scan(res["code"])
    if bad:
        raise Violation("C04:register-token-outside-r0-r15", {"opts": opts, "line": bad[0], "token": bad[1], "code": res["code"]})
    v = res["_verif"]
    if len(v["allocated"]) > 16 or any(not 0 <= r <= 15 for r in v["allocated"]):
        raise Violation("C04:allocated-set-outside-r0-r15", {"allocated": v["allocated"]})
    recmap = diag.align(res["code"], v["instructions"])
    for es in case["env_seeds"]:
        m = ic10vm.Machine(res["code"], compare.make_env(es, case["pool"]), tables.enum_tables(), max_steps=30000, max_effects=K)
        tm = diag.TagMonitor(m, recmap)
        rm = diag.RegionMonitor(m, recmap, stop_on_fallthrough=True)
        try:
            m.run()
        except ic10vm.VMError as e:
            if not tm.clobbers:
                if stats is not None:
                    stats.discarded["vmerror:" + e.kind] += 1
                continue
        if tm.clobbers:
            c = tm.clobbers[0]
            sig = oracle.clobber_signature(c, v["instructions"])
            raise Violation(sig + oracle.clobber_shape_suffix(srcs, sig, c), {"opts": opts, "env_seed": es, "clobber": c, "code": res["code"]})
        if case.get("differential"):
            # activations of one function share virtual names, so tags cannot tell them apart: compare with
            # the reference interpreter instead
            r = oracle.diff_run(srcs, opts, es, case["pool"], K, res=res)
            if r["kind"] in ("mismatch", "vmerror"):
                raise Violation("C04:clobber:across-activations-of-one-function", {"opts": opts, "env_seed": es, "code": res["code"],
                                "compare": r.get("detail"), "error": r.get("error")})
        if stats is not None:
            shared = sum(1 for s in tm.phys_share.values() if len(s) >= 2)
            if len(tm.virtuals) >= 6 and shared >= 1 and (m.calls_executed or m.backjumps):
                stats.nontrivial.add(sha([srcs, opts, es])[:16])
                stats.classes["nontrivial"] += 1
                stats.sample({"source": srcs[""], "options": opts, "virtuals": len(tm.virtuals),
                              "physical_shared": shared, "allocated": v["allocated"]}, limit=3)
            stats.classes["allocated=%02d" % len(v["allocated"])] += 1
            if case.get("locals"):
                stats.classes["compiled-with-locals=%d" % case["locals"]] += 1
    if stats is not None:
        stats.classes["family:" + case.get("family", "?")] += 1


@st.composite
def many_locals(draw):
    """k simultaneously live locals, k straddling 16, inside a function or at module level"""
    k = draw(st.integers(6, 22))
    in_func = draw(st.booleans())
    ind = "    " if in_func else ""
    L = [programs.HDR.rstrip("\n")]
    if in_func:
        L.append("def f(a):")
    names = [f"v{i}" for i in range(k)]
    for i, nme in enumerate(names):
        src = draw(st.sampled_from(["d0.Setting", "d1.Setting", "d2.Setting", "db.Setting"]))
        L.append(f"{ind}{nme} = {src} + {i}")
    loop = draw(st.booleans())
    if loop:
        L.append(f"{ind}for i in range(2):")
        L.append(f"{ind}    {names[0]} += i")
    # all of them are read afterwards -> simultaneously live
    tot = " + ".join(f"{c} * {nme}" for c, nme in zip(range(1, k + 1), names))
    L.append(f"{ind}db.Setting = {tot}")
    for nme in names[::3]:
        L.append(f"{ind}d1.Setting = {nme}")
    if in_func:
        L += ["while True:", "    f(1)", "    f(2)", "    yield_()"]
    return {"src": {"": "\n".join(L) + "\n"}, "env_seeds": [draw(st.integers(0, 2**31 - 1))], "pool": compare.DEFAULT_POOL,
            "locals": k, "expect": "compile-or-out-of-registers", "family": "many-locals"}


@st.composite
def device_id_capture(draw):
    """register-held device ids captured by a device / stack object (inside a function or at module
    level, from a variable or computed inside the constructor call) and used after intervening reads:
    their register must stay reserved as long as the object is used"""
    in_func = draw(st.booleans())
    ind = "    "
    arg = "a" if in_func else "d3.Setting"
    L = [programs.HDR.rstrip("\n"), "def work(a):" if in_func else "while True:"]
    n = draw(st.integers(1, 3))
    kinds = []
    for i in range(n):
        kind = draw(st.sampled_from(["Device", "Stack", "GrowLight", "Stack"]))
        kinds.append(kind)
        src = draw(st.sampled_from([f"d{i}.ReferenceId", "Autolathes.Minimum.ReferenceId", f"{arg} + {i}", f"d{i}.Setting"]))
        if draw(st.integers(0, 2)) == 0:
            # the id is computed inside the constructor call (no variable of its own)
            L.append(f"{ind}o{i} = {kind}(ref_id={src})")
        else:
            L.append(f"{ind}id{i} = {src}")
            L.append(f"{ind}o{i} = {kind}(ref_id=id{i})")
    for _ in range(draw(st.integers(2, 5))):
        i = draw(st.integers(0, n - 1))
        a = draw(st.integers(0, 9))
        if kinds[i] == "Stack":
            L.append(ind + draw(st.sampled_from([
                f"db.Setting = o{i}[{a}] + o{i}[{a + 1}]", f"o{i}[{a}] = d4.Setting + o{i}[{a}]",
                f"d5.Setting = o{i}[{a}]", f"o{i}[o{i}[{a}] + 1] = d4.Setting", f"o{i}[{a}] = o{i}[o{i}[{a + 2}]] * 2"])))
        else:
            L.append(ind + draw(st.sampled_from([
                f"db.Setting = o{i}.On + o{i}.Lock", f"o{i}.On = d4.Setting + o{i}.Power",
                f"d5.Setting = o{i}.On", f"o{i}.Lock = (o{i}.On + 1) * (o{i}.Power - 2)"])))
    if in_func:
        ncall = draw(st.integers(1, 2))
        L.append("while True:")
        for k in range(ncall):
            L.append(f"    work(d3.Setting + {k})")
    L.append("    yield_()")
    return {"src": {"": "\n".join(L) + "\n"}, "env_seeds": [draw(st.integers(0, 2**31 - 1))], "pool": [1.0, 2.0, 3.0, 5.0, 8.0, 13.0],
            "family": "device-id-capture"}


@st.composite
def multiline_lifetimes(draw):
    """statements spanning several lines inside a function: locals whose last use is on an early line of
    the statement, temporaries computed on later lines"""
    n = draw(st.integers(2, 5))
    names = [f"w{i}" for i in range(n)]
    L = [programs.HDR.rstrip("\n"), "def calc(a, b):"]
    for i, nm in enumerate(names):
        L.append(f"    {nm} = {draw(st.sampled_from(['a', 'b', 'd0.Setting', 'd1.Setting']))} * {i + 2}")
    order = draw(st.permutations(names))
    nst = draw(st.integers(1, 3))
    used = 0
    for s_ in range(nst):
        k = draw(st.integers(2, 4))
        parts = []
        for j in range(k):
            v = order[(used + j) % n]
            shape = draw(st.integers(0, 3))
            if j == 0 or shape == 0:
                parts.append(v)
            elif shape == 1:
                parts.append(f"(a - b) * (a + {v})")
            elif shape == 2:
                parts.append(f"({v} + b) * (a - {j})")
            else:
                parts.append(f"max(a * {j + 1}, b + {v}) - min(a, b)")
        used += 1
        op = draw(st.sampled_from([" +", " -", " *"]))
        tgt = draw(st.sampled_from(["res", "db.Setting", "d2.Setting"]))
        L.append(f"    {tgt} = (" + (op + "\n           ").join(parts) + ")")
        if tgt == "res":
            L.append("    d3.Setting = res")
    L.append(f"    return {order[-1]} + a")
    L += ["while True:", "    db.Setting = calc(d0.Setting, d1.Setting)", "    d1.Setting = calc(2, d2.Setting)", "    yield_()"]
    return {"src": {"": "\n".join(L) + "\n"}, "env_seeds": [draw(st.integers(0, 2**31 - 1))], "pool": compare.DEFAULT_POOL, "family": "multi-line"}


@st.composite
def recursive(draw):
    """a directly recursive function with a value that is needed after the inner call returns.  Registers
    are static per function, so such a program is either rejected or must keep each activation's values
    apart; bounded depth (the argument is clamped)."""
    npar = draw(st.integers(1, 2))
    ps = ["n", "k"][:npar]
    op = draw(st.sampled_from(["*", "+", "-"]))
    L = [programs.HDR.rstrip("\n"), f"def rec({', '.join(ps)}):", "    if n <= 1:", f"        return {draw(st.sampled_from(['1', 'n', 'd1.Setting']))}"]
    inner = "rec(n - 1" + (", k + 1)" if npar == 2 else ")")
    shape = draw(st.integers(0, 2))
    if shape == 0:
        L.append(f"    return n {op} {inner}")
    elif shape == 1:
        L += [f"    t = n * 2 + {draw(st.integers(0, 5))}", f"    r = {inner}", f"    return t {op} r" + (" + k" if npar == 2 else "")]
    else:
        L += [f"    r = {inner}", f"    d2.Setting = n", f"    return r {op} n"]
    arg = draw(st.sampled_from(["min(max(d0.Setting, 0), 4)", "3", "4", "min(max(d3.On + 2, 0), 3)"]))
    L += ["while True:", f"    db.Setting = rec({arg}" + (", 1)" if npar == 2 else ")"), "    yield_()"]
    return {"src": {"": "\n".join(L) + "\n"}, "env_seeds": [draw(st.integers(0, 2**31 - 1))], "pool": compare.DEFAULT_POOL,
            "family": "recursive", "differential": True}


@st.composite
def tail_mid(draw):
    """tail_call_optimization on: a function (called once, hence inlined - the out-of-line case is open finding
    F-D11 and is excluded at check time) keeps locals alive across a call in the middle of its body and ends in
    another call of the same or of a second callee; the callees are called from two sites and stay out of line"""
    ncal = draw(st.integers(1, 2))
    L = [programs.HDR.rstrip("\n")]
    outs = ["db.Setting", "d1.Setting", "d2.Setting"]
    for j in range(ncal):
        L.append(f"def rep{j}(v):")
        nt = draw(st.integers(1, 3))
        L.append(f"    s0 = v * 2 + {draw(st.sampled_from(['1', 'd3.Setting', 'd0.On']))}")
        for t in range(1, nt):
            L.append(f"    s{t} = s{t - 1} - v * {t + 2}")
        L.append(f"    s{nt - 1} += 1")
        L.append(f"    {outs[j]} = " + " + ".join(f"s{t}" for t in range(nt)))
    npar = draw(st.integers(1, 2))
    ps = ["n", "m"][:npar]
    L.append(f"def run({', '.join(ps)}):")
    nl = draw(st.integers(1, 4))
    for t in range(nl):
        L.append(f"    a{t} = {ps[t % npar]} * {t + 3} + {draw(st.sampled_from(['1', 'd4.Setting', '0.5']))}")
    L.append(f"    rep0({draw(st.sampled_from(ps + ['a0 + 1']))})")
    for t in range(nl):
        L.append(f"    a{t} += {7 + t}")
    if draw(st.booleans()):
        L.append(f"    d5.Setting = " + " - ".join(f"a{t}" for t in range(nl)))
    L.append(f"    rep{ncal - 1}({' + '.join(f'a{t}' for t in range(nl))})")
    L.append("while True:")
    L.append(f"    run({', '.join(draw(st.sampled_from(['d0.Setting', 'd3.Mode', '2'])) for _ in ps)})")
    if ncal == 2 or draw(st.booleans()):
        L.append(f"    rep{ncal - 1}(d4.Setting)")
    L.append("    yield_()")
    return {"src": {"": "\n".join(L) + "\n"}, "env_seeds": [draw(st.integers(0, 2**31 - 1)) for _ in range(2)], "pool": compare.DEFAULT_POOL,
            "family": "tail-call-with-mid-call", "opts": draw(st.sampled_from([{"tail_call_optimization": True},
                                                                         {"tail_call_optimization": True, "use_push_pop_functions": True}])),
            "inlined_only": ["run"]}


@st.composite
def cases(draw):
    k = draw(st.integers(0, 12))
    if k == 12:
        return draw(tail_mid())
    if k == 11 and draw(st.integers(0, 3)) == 0:
        c = draw(recursive())
        c["opts"] = VECS[draw(st.integers(0, len(VECS) - 1))]
        return c
    if k == 11:
        # library modules: module globals and functions of several files share the 16 registers
        from . import c13
        mc = draw(c13.cases())
        return {"src": c13.render(mc)[0], "env_seeds": mc["env_seeds"], "pool": compare.DEFAULT_POOL, "family": "modules",
                "opts": VECS[draw(st.integers(0, len(VECS) - 1))]}
    if k == 10:
        c = draw(multiline_lifetimes())
        c["opts"] = VECS[draw(st.integers(0, len(VECS) - 1))]
        return c
    if k <= 3:
        c = draw(programs.program_cases(programs.Cfg(call_bias=15, max_funcs=4, d5_args=draw(st.booleans()), multiline_pct=draw(st.sampled_from([5, 30, 60]))), nenv=2))
        c["family"] = "general"
    elif k <= 6:
        c = draw(callgraph.callgraph_cases(nenv=2))
        c["family"] = "callgraph"
    elif k <= 7:
        c = draw(device_id_capture())
    else:
        c = draw(many_locals())
    c["opts"] = VECS[draw(st.integers(0, len(VECS) - 1))]
    return c


def run_shard(ctx):
    K = ctx.scale(oracle.K_QUICK, 100)
    hyp_search(ctx, cases(), lambda c: check_case(c, ctx.stats, K), ctx.scale(110, 1500))


def replay(case):
    try:
        check_case(case, None, case.get("K", oracle.K_QUICK))
    except Violation as v:
        return {"kind": "violation", "signature": v.signature, "detail": v.detail}
    return {"kind": "ok"}
