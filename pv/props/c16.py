"""C16 - device, enum and instruction tables are internally consistent (DESIGN section 16)."""
import ast
import os
import re

from .. import ic10vm, isa, oracle, repo
from ..gen import intrinsics as gi
from ..runner import Violation, sha

ID = "C16"
LEVEL = "exploration"
EXHAUSTIVE = True
RULE = (
    "Exhaustive enumeration (finite tables): every generated structure class and plural singleton (hash == signed "
    "CRC-32 of the prefab name by an independent table-driven CRC, singular<->plural bijection, both forms compile and "
    "emit that hash/name), every slot property of every class in singular and plural form (named slot emits the index "
    "of the slotN it is declared with, slotN emits N), every intrinsic wrapper called through compile_code with marker "
    "arguments (opcode of its own name, operands in order, output register iff the instruction has one per pv/isa.py), "
    "every member of every enum (numbers unique per class by parsing the file with ast; verbose name and compact "
    "number denote the same member). Every enumerated item is distinct and counts as non-trivial."
)
ASSUMPTIONS = [
    "consistency is internal: prefab names, slot indices and enum numbers cannot be compared with the game offline",
    "which instructions have an output register is taken from the hand-written pv/isa.py table",
    "Logic*/batch enum members are exercised in their operand positions, other enums as values",
]
HDR = gi.HDR


def nshards(tier):
    return 8


# independent table-driven CRC-32 (IEEE 802.3, reflected)
_T = []
for _i in range(256):
    _c = _i
    for _ in range(8):
        _c = (_c >> 1) ^ 0xEDB88320 if _c & 1 else _c >> 1
    _T.append(_c)


def crc32_signed(s):
    c = 0xFFFFFFFF
    for b in s.encode("utf-8"):
        c = _T[(c ^ b) & 0xFF] ^ (c >> 8)
    c ^= 0xFFFFFFFF
    return c - (1 << 32) if c & 0x80000000 else c


def parse_structures():
    path = os.path.join(repo.SRC, "stationeers_pytrapic", "structures_generated.py")
    tree = ast.parse(open(path).read())
    classes, singles = {}, {}
    for n in tree.body:
        if isinstance(n, ast.ClassDef):
            info = {"bases": [ast.unparse(b) for b in n.bases], "hash": None, "prefab": None, "slots": {}, "named": {}}
            for b in n.body:
                if isinstance(b, ast.AnnAssign) and isinstance(b.target, ast.Name):
                    if b.target.id == "_hash" and b.value is not None:
                        info["hash"] = ast.literal_eval(b.value)
                    if b.target.id == "_prefab_name" and b.value is not None:
                        info["prefab"] = ast.literal_eval(b.value)
                if isinstance(b, ast.FunctionDef) and b.body and isinstance(b.body[-1], ast.Return):
                    rv = b.body[-1].value
                    if isinstance(rv, ast.Call) and isinstance(rv.func, ast.Name) and rv.func.id.startswith("_SlotType") and len(rv.args) == 2 \
                            and isinstance(rv.args[1], ast.Constant):
                        info["slots"][b.name] = rv.args[1].value
                    elif isinstance(rv, ast.Attribute) and isinstance(rv.value, ast.Name) and rv.value.id == "self" and re.match(r"slot\d+$", rv.attr):
                        info["named"][b.name] = rv.attr
            classes[n.name] = info
        elif isinstance(n, ast.AnnAssign) and isinstance(n.target, ast.Name) and isinstance(n.value, ast.Call):
            singles[n.target.id] = ast.unparse(n.value.func)
    return classes, singles


def parse_enums():
    path = os.path.join(repo.SRC, "stationeers_pytrapic", "types_generated.py")
    tree = ast.parse(open(path).read())
    out = {}
    for n in tree.body:
        if isinstance(n, ast.ClassDef) and any(ast.unparse(b) in ("_IntEnum", "IntEnum") for b in n.bases):
            members = []
            for b in n.body:
                if isinstance(b, ast.Assign) and len(b.targets) == 1 and isinstance(b.targets[0], ast.Name):
                    try:
                        members.append((b.targets[0].id, ast.literal_eval(b.value)))
                    except Exception:
                        pass
            out[n.name] = members
    return out


def compile_lines(lines, compact):
    res = oracle.compile_case({"": HDR + "\n".join(lines) + "\n"}, {"compact": compact})
    if "error" in res:
        return None, res["error"]["description"]
    return [ic10vm.tokenize(l) for l in res["code"].split("\n")], None


def chunks(seq, n):
    for i in range(0, len(seq), n):
        yield seq[i:i + n]


class Sink:
    def __init__(self, ctx):
        self.ctx = ctx

    def ok(self, family, item):
        st = self.ctx.stats
        st.evaluations += 1
        st.nontrivial.add(sha([family, item])[:16])
        st.classes[family] += 1

    def bad(self, signature, detail, case):
        if signature in self.ctx.known_signatures:
            self.ctx.stats.known[self.ctx.known_signatures[signature]] += 1
            self.ctx.stats.evaluations += 1
            return
        self.ctx.stats.evaluations += 1
        self.ctx.stats.violations.append({"signature": signature, "detail": detail, "case": case})


def plural_names(classes, singles):
    """prefab name -> name of the plural singleton (most are name+'s', some are ...ies)"""
    out = {}
    for pl, clsname in singles.items():
        c = classes.get(clsname)
        if c and "_BaseStructures" in c["bases"] and c["prefab"]:
            out.setdefault(c["prefab"], pl)
    return out


def check_structures(sink, classes, singles, mine):
    singular = {n: c for n, c in classes.items() if "_BaseStructure" in c["bases"] and c["prefab"]}
    plural_cls = {n: c for n, c in classes.items() if "_BaseStructures" in c["bases"] and c["prefab"]}
    names = sorted(singular)
    plural_of = plural_names(classes, singles)
    for n in names[mine]:
        c = singular[n]
        case = {"family": "structure", "name": n}
        if crc32_signed(c["prefab"]) != c["hash"]:
            sink.bad("C16:stored-hash-is-not-crc32-of-prefab-name", {"class": n, "prefab": c["prefab"], "stored": c["hash"], "crc32": crc32_signed(c["prefab"])}, case)
            continue
        pl = plural_of.get(c["prefab"])
        pc = plural_cls.get(singles.get(pl, "")) if pl else None
        if pc is None:
            sink.bad("C16:no-plural-form", {"class": n}, case)
            continue
        if pc["prefab"] != c["prefab"] or pc["hash"] != c["hash"]:
            sink.bad("C16:plural-form-differs", {"class": n, "singular": [c["prefab"], c["hash"]], "plural": [pc["prefab"], pc["hash"]]}, case)
            continue
        sink.ok("structure-hash+plural", n)
    # reverse direction: every plural singleton has a singular class
    for pl in sorted(singles)[mine]:
        pc = plural_cls.get(singles[pl])
        if pc is None:
            continue
        if sum(1 for c in singular.values() if c["prefab"] == pc["prefab"] and c["hash"] == pc["hash"]) != 1:
            sink.bad("C16:plural-without-singular", {"plural": pl}, {"family": "plural", "name": pl})
        else:
            sink.ok("plural->singular", pl)
    # both forms compile and emit that hash / name
    compilable = [n for n in names[mine] if singular[n]["prefab"] in plural_of]
    for group in chunks(compilable, 30):
        lines = []
        for n in group:
            lines.append(f"db.Setting = {n}(d0).PrefabHash")
            lines.append(f"db.Setting = {plural_of[singular[n]['prefab']]}.PrefabHash.Maximum")
        for compact in (False, True):
            toks, err = compile_lines(lines, compact)
            if toks is None:
                # find the culprit one by one
                for n in group:
                    t2, e2 = compile_lines([f"db.Setting = {n}(d0).PrefabHash", f"db.Setting = {plural_of[singular[n]['prefab']]}.PrefabHash.Maximum"], compact)
                    if t2 is None:
                        sink.bad("C16:structure-form-does-not-compile", {"class": n, "error": e2[:200]}, {"family": "structure-compile", "name": n})
                continue
            loads = [t for t in toks if t and t[0] in ("l", "lb")]
            if len(loads) != 2 * len(group):
                sink.bad("C16:structure-compile-shape", {"group": group[:3], "lines": len(loads)}, {"family": "structure-compile", "name": group[0]})
                continue
            for i, n in enumerate(group):
                c = singular[n]
                a, b = loads[2 * i], loads[2 * i + 1]
                want = str(c["hash"]) if compact else f'HASH("{c["prefab"]}")'
                okb = b[0] == "lb" and (b[2] == want or (compact and b[2] == f'HASH("{c["prefab"]}")' and len(str(c["hash"])) >= len(b[2])))
                if a[:3] != ["l", a[1], "d0"] or not okb:
                    sink.bad("C16:structure-emits-wrong-hash-or-name", {"class": n, "compact": compact, "emitted": [a, b], "want": want},
                             {"family": "structure-compile", "name": n})
                else:
                    sink.ok("structure-compiles:" + ("compact" if compact else "verbose"), n)


def check_slots(sink, classes, mine, singles=None):
    singular = {n: c for n, c in classes.items() if "_BaseStructure" in c["bases"] and c["prefab"]}
    plural_of = plural_names(*parse_structures()) if singles is None else plural_names(classes, singles)
    items = []
    for n in sorted(singular):
        c = singular[n]
        for s, idx in sorted(c["slots"].items()):
            items.append((n, s, idx, None))
        for s, target in sorted(c["named"].items()):
            items.append((n, s, c["slots"].get(target), target))
    for group in chunks(items[mine], 40):
        lines = []
        for n, s, idx, target in group:
            lines.append(f"db.Setting = {n}(d0).{s}.Occupied")
            lines.append(f"db.Setting = {plural_of.get(singular[n]['prefab'], n + 's')}.{s}.Occupied.Maximum")
        toks, err = compile_lines(lines, False)
        if toks is None:
            for n, s, idx, target in group:
                t2, e2 = compile_lines([f"db.Setting = {n}(d0).{s}.Occupied", f"db.Setting = {plural_of.get(singular[n]['prefab'], n + 's')}.{s}.Occupied.Maximum"], False)
                if t2 is None:
                    sink.bad("C16:slot-does-not-compile", {"class": n, "slot": s, "error": e2[:200]}, {"family": "slot", "name": f"{n}.{s}"})
            continue
        loads = [t for t in toks if t and t[0] in ("ls", "lbs")]
        if len(loads) != 2 * len(group):
            sink.bad("C16:slot-compile-shape", {"first": group[0][:2]}, {"family": "slot", "name": f"{group[0][0]}.{group[0][1]}"})
            continue
        for i, (n, s, idx, target) in enumerate(group):
            a, b = loads[2 * i], loads[2 * i + 1]
            want = idx
            if re.match(r"slot\d+$", s):
                want = int(s[4:])
            detail = {"class": n, "slot": s, "declared_with": target, "expected_index": want, "emitted": [a, b]}
            if want is None:
                sink.bad("C16:named-slot-refers-to-missing-slot", detail, {"family": "slot", "name": f"{n}.{s}"})
            elif a[0] != "ls" or a[3] != str(want) or b[0] != "lbs" or b[3] != str(want) or idx != want:
                sink.bad("C16:slot-resolves-to-wrong-index", detail, {"family": "slot", "name": f"{n}.{s}"})
            else:
                sink.ok("slot-named" if target else "slot-numbered", f"{n}.{s}")


def check_intrinsic(sink, w):
    case = {"family": "intrinsic", "name": w["name"]}
    op = w["opcode"]
    if op != w["name"].rstrip("_"):
        sink.bad("C16:intrinsic-emits-other-opcode:" + w["name"], {"wrapper": w["name"], "opcode": op}, case)
        return
    if op not in isa.T:
        sink.bad("C16:intrinsic-of-unknown-instruction:" + w["name"], {"opcode": op}, case)
        return
    pre, args, expect = gi.build_call(w)
    # `ins` reads and writes its first register operand: the caller has to name it, no result to yield
    has_out = op in isa.HAS_OUTPUT and op != "ins"
    call = f"{w['name']}({', '.join(args)})"
    lines = list(pre) + ([f"res = {call}", "db.Setting = res"] if w["declared_output"] else [call])
    toks, err = compile_lines(lines, False)
    if toks is None:
        sink.bad("C16:intrinsic-call-does-not-compile:" + w["name"], {"call": call, "error": err[:300]}, case)
        return
    regmap = {}
    for t in toks:
        if t and t[0] == "l" and len(t) == 4 and t[3] == "Setting" and re.match(r"d[0-3]$", t[2]):
            regmap[t[1]] = int(t[2][1])
    emitted = [t for t in toks if t and t[0] == op and not (t[0] == "l" and len(t) == 4 and t[3] == "Setting" and t[2] in ("d0", "d1", "d2", "d3") and t[1] in regmap and op == "l" and False)]
    if op == "l":
        emitted = [t for t in toks if t and t[0] == "l" and not (t[3] == "Setting" and t[2] in ("d0", "d1", "d2", "d3"))]
    if op == "s":
        emitted = [t for t in toks if t and t[0] == "s" and t[1] != "db"]
    if len(emitted) != 1:
        sink.bad("C16:intrinsic-not-emitted-once:" + w["name"], {"call": call, "code": toks}, case)
        return
    t = emitted[0]
    ops = t[1:]
    detail = {"call": call, "emitted": " ".join(t), "instruction_has_output": has_out, "wrapper_declares_output": w["declared_output"]}
    if has_out != w["declared_output"]:
        sink.bad("C16:intrinsic-output-mismatch:" + w["name"], detail, case)
        return
    if has_out:
        if not ops or not isa.REG.match(ops[0]):
            sink.bad("C16:intrinsic-output-register-missing:" + w["name"], detail, case)
            return
        ops = ops[1:]
    if len(ops) != len(expect):
        sink.bad("C16:intrinsic-operand-count:" + w["name"], detail, case)
        return
    for got, want in zip(ops, expect):
        if isinstance(want, tuple) and want[0] == "REG":
            good = regmap.get(got) == want[1]
        elif isinstance(want, tuple):
            good = got in want
        else:
            good = got == want
        if not good:
            sink.bad("C16:intrinsic-operands-out-of-order:" + w["name"], dict(detail, expected=[str(e) for e in expect]), case)
            return
    if len(isa.T[op]) != len(t) - 1:
        sink.bad("C16:intrinsic-arity-differs-from-instruction:" + w["name"], dict(detail, instruction_operands=isa.T[op]), case)
        return
    sink.ok("intrinsic", w["name"])


POSITIONAL = {"LogicType": lambda m: (f"x = lb(1234, LogicType.{m}, LogicBatchMethod.Sum)", "lb", 3),
              "LogicSlotType": lambda m: (f"x = ls(d0, 0, LogicSlotType.{m})", "ls", 4),
              "LogicBatchMethod": lambda m: (f"x = lb(1234, LogicType.On, LogicBatchMethod.{m})", "lb", 4),
              "LogicReagentMode": lambda m: (f"x = lr(d0, LogicReagentMode.{m}, 1)", "lr", 3)}


def check_enums(sink, enums, mine):
    for cls in sorted(enums):
        members = enums[cls]
        seen = {}
        for name, val in members:
            if val in seen:
                sink.bad("C16:enum-number-shared", {"enum": cls, "number": val, "names": [seen[val], name]}, {"family": "enum", "name": f"{cls}.{name}"})
            seen.setdefault(val, name)
    items = [(cls, name, val) for cls in sorted(enums) for name, val in enums[cls]]
    for group in chunks(items[mine], 40):
        lines, where = [], []
        for cls, name, val in group:
            if cls in POSITIONAL:
                line, op, pos = POSITIONAL[cls](name)
                lines += [line, "db.Setting = x"]
                where.append((op, pos))
            else:
                lines.append(f"db.Setting = {cls}.{name}")
                where.append(("s", 3))
        outs = {}
        for compact in (False, True):
            toks, err = compile_lines(lines, compact)
            if toks is None:
                sink.bad("C16:enum-member-does-not-compile", {"first": group[0][:2], "error": err[:200]}, {"family": "enum", "name": f"{group[0][0]}.{group[0][1]}"})
                outs = None
                break
            got = []
            it = iter(toks)
            for (op, pos) in where:
                for t in it:
                    if t and t[0] == op and (op != "s" or len(group) and True):
                        if op == "s" and where.count(("s", 3)) != len(where) and False:
                            continue
                        got.append(t[pos])
                        if op != "s":
                            next(it, None)  # the 's db Setting x' line
                        break
            outs[compact] = got
        if outs is None:
            continue
        for i, (cls, name, val) in enumerate(group):
            case = {"family": "enum", "name": f"{cls}.{name}"}
            if i >= len(outs[False]) or i >= len(outs[True]):
                sink.bad("C16:enum-compile-shape", {"member": f"{cls}.{name}"}, case)
                continue
            verbose, comp = outs[False][i], outs[True][i]
            vnames = (name, f"{cls}.{name}")
            try:
                comp_val = ic10vm.Machine("", None, ({}, {})).const(comp)
            except Exception:
                comp_val = None
            if verbose not in vnames or comp_val != float(val):
                sink.bad("C16:enum-name-and-number-disagree", {"member": f"{cls}.{name}", "number_in_file": val, "verbose": verbose, "compact": comp}, case)
            else:
                sink.ok("enum-member", f"{cls}.{name}")


def run_shard(ctx):
    sink = Sink(ctx)
    mine = slice(ctx.shard, None, ctx.nshards)
    classes, singles = parse_structures()
    check_structures(sink, classes, singles, mine)
    check_slots(sink, classes, mine)
    ws = gi.wrappers()
    for w in ws[mine]:
        check_intrinsic(sink, w)
    check_enums(sink, parse_enums(), mine)
    if ctx.shard == 0:
        ctx.stats.extra["structures"] = len([c for c in classes.values() if "_BaseStructure" in c["bases"] and c["prefab"]])
        ctx.stats.extra["intrinsic_wrappers"] = len(ws)
        ctx.stats.extra["enum_classes"] = len(parse_enums())
        ctx.stats.sample({"family": "structure", "item": "ArcFurnace: hash -247344692 == crc32('StructureArcFurnace'); ArcFurnaces same; lb ... HASH(\"StructureArcFurnace\")"})
        ctx.stats.sample({"family": "intrinsic", "item": "atan2(m0, m1) -> 'atan2 rX rA rB' with rA<-d0, rB<-d1"})
        ctx.stats.sample({"family": "enum", "item": "Color.Blue -> verbose 'Color.Blue', compact '0'"})


def replay(case):
    """re-check one enumerated item"""
    class C:
        pass

    from ..runner import Stats
    ctx = C()
    ctx.stats = Stats()
    ctx.known_signatures = {}
    sink = Sink(ctx)
    fam, name = case["family"], case["name"]
    classes, singles = parse_structures()
    if fam in ("structure", "plural", "structure-compile"):
        names = sorted(n for n, c in classes.items() if "_BaseStructure" in c["bases"] and c["prefab"])
        base = name[:-1] if fam == "plural" else name
        i = names.index(base) if base in names else 0
        check_structures(sink, classes, singles, slice(i, i + 1))
    elif fam == "slot":
        cls = name.split(".")[0]
        sub = {cls: classes[cls]}
        check_slots(sink, sub, slice(0, None))
    elif fam == "intrinsic":
        for w in gi.wrappers():
            if w["name"] == name:
                check_intrinsic(sink, w)
    elif fam == "enum":
        cls = name.split(".")[0]
        check_enums(sink, {cls: parse_enums()[cls]}, slice(0, None))
    for v in ctx.stats.violations:
        if v["case"].get("name") == name or fam == "slot":
            return {"kind": "violation", "signature": v["signature"], "detail": v["detail"]}
    return {"kind": "ok"}
