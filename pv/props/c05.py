"""C05 - every jump lands on the instruction the source construct meant (DESIGN section 5)."""
import re

from hypothesis import strategies as st

from .. import compare, diag, ic10vm, isa, oracle, repo, tables
from ..gen import idents, programs
from ..runner import Violation, hyp_search, sha

ID = "C05"
LEVEL = "exploration"
RULE = (
    "Hypothesis-constructed call-heavy programs (loops, if/else, early returns, list loops, constant-list jump "
    "tables, library modules with and without alias) whose function and module identifiers come from an adversarial "
    "pool (prefixes of one another, '_' placement, 'end' suffixes, register/opcode/label look-alikes) x {compact, "
    "inline, push/pop}; oracles: (1) in the labelled output every label referenced by a control transfer is defined "
    "exactly once and every j/jal/b* target is a defined label, ra or an in-range line; (2) an independent resolver "
    "(delete label lines, label -> index of the following instruction, whole-token substitution outside quoted "
    "strings) applied to the labelled output must equal the remove_labels=True output line for line; (3) both outputs "
    "produce the same effect trace on the reference machine and every return lands behind its call; (4) for 3 of 4 "
    "cases the labelled output is compiled again with original_code_as_comment / generated_comments: it must pass (1) "
    "and produce the same effect trace; (5) the labelled output of the identifier programs (functions ending in "
    "loops left by return, if/else returns, guard returns, continue, list loops) produces the effect trace of the "
    "reference interpreter. Non-trivial: >= 4 "
    "distinct labels referenced and an identifier pair in prefix relation or containing '_'; distinct by SHA-1 of source."
)
ASSUMPTIONS = [
    "identifier sets are repaired so that no two labels/end-labels coincide after '_' -> '.' (open finding F-D13) and "
    "no function is named like a builtin, a logic type or a generated label (F-D28 / documented rejection)",
    "comments are switched off for the line-for-line comparison (the transpiler also substitutes inside comments)",
]
JUMPS = re.compile(r"^(j|jal|jr|b\w+)$")
VECS = [{}, {"inline_functions": False}, {"compact": True}, {"use_push_pop_functions": True, "inline_functions": False},
        {"compact": True, "inline_functions": False, "use_push_pop_functions": True}]


def nshards(tier):
    return 16


def resolve(labelled):
    """the property's second sentence, independently: labelled text -> label-free text"""
    lines = labelled.split("\n")
    label_at, out = {}, []
    for l in lines:
        code = l.split("#")[0].strip() if '"' not in l else l.strip()
        t = ic10vm.tokenize(l)
        if len(t) == 1 and t[0].endswith(":"):
            label_at[t[0][:-1]] = len(out)
        else:
            out.append(l.strip())
    res = []
    for l in out:
        toks = ic10vm.tokenize(l)
        res.append(" ".join(str(label_at[t]) if t in label_at else t for t in toks))
    return res, label_at


def structural(labelled):
    toks = [ic10vm.tokenize(l) for l in labelled.split("\n")]
    defs = {}
    for i, t in enumerate(toks):
        if len(t) == 1 and t[0].endswith(":"):
            defs.setdefault(t[0][:-1], []).append(i)
    n = len(toks)
    referenced = set()
    for i, t in enumerate(toks):
        if not t or not JUMPS.match(t[0]) or t[0] not in isa.T:
            continue
        kinds = isa.T[t[0]]
        if len(kinds) != len(t) - 1:
            return ("C05:jump-operand-count", {"line": i, "text": " ".join(t)}), referenced
        tgt = t[1:][kinds.index("t")]
        if tgt in defs:
            referenced.add(tgt)
            if len(defs[tgt]) != 1:
                return ("C05:referenced-label-defined-more-than-once", {"label": tgt, "lines": defs[tgt]}), referenced
        elif isa.REG.match(tgt):
            pass
        elif re.match(r"^-?\d+$", tgt):
            v = int(tgt)
            lo, hi = (0, n) if not t[0].startswith("br") and t[0] != "jr" else (-i, n - i)
            if not lo <= v <= hi:
                return ("C05:numeric-target-out-of-range", {"line": i, "text": " ".join(t)}), referenced
        else:
            return ("C05:jump-to-undefined-label", {"line": i, "text": " ".join(t)}), referenced
    return None, referenced


def collision_suffix(srcs):
    """identifier sets whose labels coincide (open finding F-D13): f/fend, f_x/f.x, generated-label look-alikes"""
    import ast as _ast

    labels = []
    for mod, text in srcs.items():
        try:
            tree = _ast.parse(text)
        except SyntaxError:
            continue
        for n in _ast.walk(tree):
            if isinstance(n, _ast.FunctionDef):
                q = (mod + "." if mod else "") + n.name
                labels.append(q.replace("_", "."))
    allv = labels + [l + "end" for l in labels]
    if len(set(allv)) < len(allv) or any(idents.LABELISH.match(l.split(".")[-1]) for l in labels):
        return ":D13-colliding-identifiers"
    return ""


def check_case(case, stats=None, K=oracle.K_QUICK):
    srcs, base = case["src"], dict(case.get("opts") or {})
    if stats is not None:
        stats.evaluations += 1
    lab = oracle.compile_case(srcs, dict(base, remove_labels=False))
    num = oracle.compile_case(srcs, dict(base, remove_labels=True))
    if ("error" in lab) != ("error" in num):
        raise Violation("C05:label-mode-changes-acceptance", {"labelled": oracle.public(lab), "numbered": oracle.public(num), "opts": base})
    if "error" in lab:
        if stats is not None:
            stats.discarded["reject:" + ("registers" if oracle.out_of_registers(lab["error"]["description"]) else oracle.error_class(lab["error"]["description"]))] += 1
        return
    detail = {"opts": base, "labelled": lab["code"], "numbered": num["code"]}
    bad, referenced = structural(lab["code"])
    if bad:
        raise Violation(bad[0] + collision_suffix(srcs), dict(detail, **bad[1]))
    bad2, _ = structural(num["code"])
    if bad2:
        raise Violation(bad2[0] + ":label-free-output", dict(detail, **bad2[1]))
    expect, label_at = resolve(lab["code"])
    got = [" ".join(ic10vm.tokenize(l)) for l in num["code"].split("\n")] if num["code"] else []
    if expect != got:
        k = next((i for i in range(min(len(expect), len(got))) if expect[i] != got[i]), min(len(expect), len(got)))
        raise Violation("C05:label-free-output-differs-from-resolved-labelled-output",
                        dict(detail, line=k, expected=expect[k] if k < len(expect) else None, got=got[k] if k < len(got) else None))
    if any(l != l.strip() for l in num["code"].split("\n")):
        raise Violation("C05:label-free-output-keeps-indentation", detail)
    # semantic: both label modes behave alike, returns land behind their calls
    ms = []
    for es in case["env_seeds"]:
        pair = []
        for r in (lab, num):
            m = ic10vm.Machine(r["code"], compare.make_env(es, case["pool"]), tables.enum_tables(), max_steps=30000, max_effects=K)
            try:
                m.run()
            except ic10vm.VMError as e:
                sig, extra = oracle.attribute(r, es, case["pool"], 30000, K)
                raise Violation(sig or ("C05:vmerror:" + e.kind), dict(detail, error=str(e)))
            br = diag.bad_returns(m, diag.align(r["code"], r["_verif"]["instructions"]))
            if br:
                sig, extra = oracle.attribute(r, es, case["pool"], 30000, K)
                raise Violation(sig or br[0][0], dict(detail, event=list(br[0][1])))
            pair.append(m)
        kind, d = compare.compare_vm_vm(pair[0], pair[1])
        if kind == "mismatch":
            raise Violation("C05:label-modes-behave-differently:" + d["what"] + oracle.shape_suffix(srcs), dict(detail, compare=d))
        ms.append(pair[0])
    # the targets chosen are the ones the source constructs mean: same effects as the reference interpreter
    if case.get("source_oracle"):
        for es in case["env_seeds"]:
            r = oracle.diff_run(srcs, dict(base, remove_labels=False), es, case["pool"], K, res=lab)
            if r["kind"] in ("mismatch", "vmerror"):
                sig = r.get("root") or ("C05:control-flow-differs-from-source:" + (r["detail"]["what"] if r["kind"] == "mismatch" else r["vmkind"]))
                raise Violation(sig, dict(detail, compare=r.get("detail"), src_trace=compare.jsonable(r["it"].trace[:10]),
                                          vm_trace=compare.jsonable(r["m"].trace[:10])))
            if stats is not None:
                if r["kind"] in ("unsupported", "srcerror", "nan"):
                    stats.discarded["source-oracle-" + r["kind"] + ":" + r.get("why", "")[:30]] += 1
                elif r["kind"] == "ok":
                    stats.classes["agrees-with-reference-interpreter"] += 1
    # comments appended to the lines must not disturb the label bookkeeping of the labelled output
    cm = case.get("comments")
    if cm:
        labc = oracle.compile_case(srcs, dict(base, remove_labels=False, **cm))
        if "error" in labc:
            raise Violation("C05:comments-change-acceptance", dict(detail, error=labc["error"].get("description", "")[:300], comment_opts=cm))
        badc, _ = structural(labc["code"])
        if badc:
            raise Violation(badc[0] + ":with-comments" + collision_suffix(srcs), dict(detail, commented=labc["code"], comment_opts=cm, **badc[1]))
        for es, m0 in zip(case["env_seeds"], ms):
            m = ic10vm.Machine(labc["code"], compare.make_env(es, case["pool"]), tables.enum_tables(), max_steps=30000, max_effects=K)
            try:
                m.run()
            except ic10vm.VMError as e:
                raise Violation("C05:vmerror-with-comments:" + e.kind, dict(detail, commented=labc["code"], comment_opts=cm, error=str(e)))
            kind, d = compare.compare_vm_vm(m0, m)
            if kind == "mismatch":
                raise Violation("C05:commented-output-behaves-differently:" + d["what"], dict(detail, commented=labc["code"], comment_opts=cm, compare=d))
        if stats is not None:
            stats.classes["with-comment-options"] += 1
    if stats is not None:
        names = case.get("names", [])
        tricky = any("_" in n for n in names) or any(a != b and b.startswith(a) for a in names for b in names)
        stats.classes["labels-referenced>=4" if len(referenced) >= 4 else "labels-referenced<4"] += 1
        if case.get("modules"):
            stats.classes["with-library-modules"] += 1
        if len(referenced) >= 4 and tricky:
            stats.nontrivial.add(sha(srcs)[:16])
            stats.sample({"source": srcs, "options": base, "labels_referenced": sorted(referenced)[:12]}, limit=2)


@st.composite
def cases(draw):
    nf = draw(st.integers(2, 6))
    nmod = draw(st.integers(0, 2))
    raw = draw(idents.names(nf + 2 * nmod + nmod))
    mod_raw, fn_raw = raw[:nmod], raw[nmod:]
    # module aliases / names first, then qualified function names, repaired together
    mods = idents.repair(mod_raw)
    aliases = [m if draw(st.booleans()) else idents.repair([draw(idents.names(1))[0] + "m"])[0] for m in mods]
    seen = set()
    for i, a in enumerate(aliases):
        # two imports under one alias would shadow each other (that is a different program, not a label question)
        while a in seen or (a != mods[i] and a in mods):
            a += "x"
        seen.add(a)
        aliases[i] = a
    qual = []
    owner = []
    for i, f in enumerate(fn_raw):
        o = draw(st.integers(0, nmod)) - 1 if nmod else -1  # -1 = main file
        owner.append(o)
        qual.append((aliases[o] + "." if o >= 0 else "") + f)
    fixed = idents.repair([q.replace(".", "_") if False else q for q in qual])
    # after repair the function's own identifier is the part after the module prefix
    fnames = [q.split(".")[-1] if owner[i] >= 0 else q for i, q in enumerate(fixed)]
    srcs = {"": [programs.HDR.rstrip("\n")]}
    for m, a in zip(mods, aliases):
        srcs[m] = [programs.HDR.rstrip("\n")]
        srcs[""].append(f"from library import {m}" + (f" as {a}" if a != m else ""))
    defined = []  # (callname, npar, has_ret)
    for i, fn in enumerate(fnames):
        o = owner[i]
        npar = draw(st.integers(0, 2))
        has_ret = draw(st.booleans())
        ps = [f"p{j}" for j in range(npar)]
        body = [f"def {fn}({', '.join(ps)}):"]
        body.append(f"    d{i % 6}.Setting = {100 + i}" + (f" + {ps[0]}" if ps else ""))
        shape = draw(st.integers(0, 10))
        if shape == 1:
            body += [f"    if d0.On > {i}:", f"        d1.Mode = {i}", "    else:", f"        d1.Mode = {-i}"]
        elif shape == 2:
            body += [f"    for i in range(3):", f"        if d1.On > i:", ("            return i" if has_ret else "            return"), f"        db.Setting = i"]
        elif shape == 3:
            body += [f"    for e in [1, 2, 5]:", f"        d2.Setting = e + {i}"]
        elif shape == 4:
            body += [f"    c = 0", f"    while c < 2:", f"        c += 1", f"        if d2.On > c:", f"            continue", f"        d3.Setting = c"]
        elif shape == 5:
            body += [f"    d3.Setting = [4, 5, 6][min(max(d3.On, 0), 2)]"]
        elif shape == 7:
            # break / continue of an outer loop behind a list loop in the same body (the list loop's own labels are the
            # nearest ones in emission order, but not the ones meant)
            kw = draw(st.sampled_from(["continue", "break"]))
            body += [f"    for i in range(3):", f"        for e in [1, 2]:", f"            d2.Setting = e + i + {i}", f"        if d1.On > i:", f"            {kw}", f"        d3.Setting = i + {i}"]
        elif shape == 8:
            kw = draw(st.sampled_from(["continue", "break"]))
            body += [f"    c = 0", f"    while c < 3:", f"        c += 1", f"        for e in [3, 4]:", f"            d2.Setting = e * c", f"        if d2.On > c:", f"            {kw}", f"        d3.Setting = c + {i}"]
        elif shape == 9:
            # a branch whose operand is the hash of a name with '#', ':' or blanks in it (text-level label handling)
            nm = draw(st.sampled_from(["Slot#2", "Tank #1", "a:#b", "x # y", "end: #", "#"]))
            body += [f"    if d0.Setting != HASH(\"{nm}\"):", f"        d1.Mode = {i}", "    else:", f"        d1.Mode = {-i - 1}"]
        elif shape == 10:
            nm = draw(st.sampled_from(["Slot#2", "Tank #1", "a:#b", "x # y"]))
            body += [f"    c = 0", f"    while d0.Setting != HASH(\"{nm}\"):", f"        c += 1", f"        d3.Setting = c", f"        if c > 1:", f"            break"]
        tail = draw(st.integers(0, 9))
        # calls to earlier functions visible from this file
        vis = [d for d in defined if d[3] == o or (o == -1 and d[3] >= 0)]
        for _ in range(draw(st.integers(0, 2))):
            if vis:
                c = vis[draw(st.integers(0, len(vis) - 1))]
                cname = c[0] if (c[3] == o) else f"{aliases[c[3]]}.{c[0]}"
                call = f"{cname}({', '.join(str(7 + k) for k in range(c[1]))})"
                body.append(f"    d4.Setting = {call}" if c[2] else f"    {call}")
        if tail == 0:
            # the function's last source line is a return inside a loop
            body += ["    k = 0", "    while True:", "        k += 1", f"        d3.Mode = k + {i}", f"        if d2.On < k:",
                     (f"            return k + {i}" if has_ret else "            return")]
        elif tail == 1:
            body += ["    for k in range(4):", f"        d3.Mode = k + {i}", f"        if d2.On < k:",
                     (f"            return k + {i}" if has_ret else "            return")]
            if has_ret:
                body.append(f"    return {i}")  # a value on every path (F-D25 is about functions that lack it)
        elif tail == 2 and has_ret:
            body += [f"    if d1.On > 2:", f"        return {i}", "    else:", f"        d3.Mode = {i}", f"        return {i} + 1"]
        elif tail == 3 and not has_ret:
            body += [f"    if d1.On > 2:", "        return", f"    d3.Mode = {i}"]
        elif has_ret:
            body.append(f"    return {i} + d5.Setting")
        srcs[mods[o] if o >= 0 else ""] += body
        defined.append((fn, npar, has_ret, o))
    main = ["while True:"]
    for d in defined:
        cname = d[0] if d[3] == -1 else f"{aliases[d[3]]}.{d[0]}"
        for _ in range(draw(st.integers(1, 2))):
            call = f"{cname}({', '.join(str(3 + k) for k in range(d[1]))})"
            main.append(f"    db.Setting = {call}" if d[2] else f"    {call}")
    main.append("    yield_()")
    srcs[""] += main
    return {
        "src": {k: "\n".join(v) + "\n" for k, v in srcs.items()},
        "env_seeds": [draw(st.integers(0, 2**31 - 1))], "pool": compare.DEFAULT_POOL,
        "opts": VECS[draw(st.integers(0, len(VECS) - 1))], "names": fnames + list(aliases), "modules": bool(mods), "source_oracle": True,
        "comments": draw(st.sampled_from([None, {"original_code_as_comment": True}, {"generated_comments": True},
                                          {"original_code_as_comment": True, "generated_comments": True}])),
    }


def run_shard(ctx):
    K = ctx.scale(oracle.K_QUICK, 100)
    hyp_search(ctx, cases(), lambda c: check_case(c, ctx.stats, K), ctx.scale(40, 800))
    cfg = programs.Cfg(call_bias=20, max_funcs=4)

    @st.composite
    def general(draw):
        c = draw(programs.program_cases(cfg, nenv=1))
        c["opts"] = VECS[draw(st.integers(0, len(VECS) - 1))]
        return c

    hyp_search(ctx, general(), lambda c: check_case(c, ctx.stats, K), ctx.scale(22, 400), label="general")


def replay(case):
    try:
        check_case(case, None, case.get("K", oracle.K_QUICK))
    except Violation as v:
        return {"kind": "violation", "signature": v.signature, "detail": v.detail}
    return {"kind": "ok"}
