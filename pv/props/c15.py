"""C15 - in-source '# pytrapic:' directives set exactly the named options (DESIGN section 15)."""
import copy

from hypothesis import strategies as st

from .. import oracle, repo
from ..gen import options as gopt
from ..gen import programs
from ..repo import OPTION_NAMES
from ..runner import Violation, hyp_search, sha

ID = "C15"
LEVEL = "exploration"
DEADLINE = {"quick": 900}  # a hang inside C code (regular expressions) is only seen when this runs out
RULE = (
    "Base programs on which each of the 8 options changes the output (fixed call-heavy programs and generated ones) "
    "with 0-5 generated directive lines: drawn subsets of options in drawn spellings ('-'/'_', 'no-'/'no_', blanks "
    "around commas, leading blanks, text before 'pytrapic:', no blank after '#', empty items), unknown names (random "
    "identifiers, wrong case, every attribute name of a CompileOptions object incl. dunders), repeated options, "
    "placed at top / between statements / inside a function body / at the end, decoys after code and inside string "
    "literals, x drawn caller vectors (plus the exhaustive family: one line naming subset S, all 256 S, in thorough). "
    "Oracle: a reference parser written from the property's sentence yields the expected option values; "
    "compile_code(src, caller_options) must equal compile_code(src', expected) where src' has 'pytrapic:' replaced by "
    "the equally long 'pytrapiq:' on directive lines; no exception, caller's options object unchanged. Non-trivial: "
    ">= 2 directive lines, an option named twice with different polarity, expected vector != caller vector; distinct "
    "by SHA-1 of (source, caller vector)."
)
ASSUMPTIONS = [
    "directive lines are comment lines of the main file (first non-blank character '#'); lines inside multi-line strings are not generated",
    "'pytrapic:' is case-sensitive; only the text after its first occurrence on the line is the option list",
]
BASES = [
    """def inner(a):
    db.Setting = a + d0.Setting
def outer(b):
    d1.Setting = LogicType.Temperature
    inner(b)
def once(c):
    return c * 2
x = once(d2.Setting)
while True:
    outer(x)
    outer(1)
    inner(2)
    if d0.On > 0:
        d3.Mode = DisplayMode.Celsius
    yield_()
""",
    """def f(a, b):
    if a > b:
        return a
    return b + HASH("Bank 1")
while True:
    db.Setting = f(d0.Setting, 2)
    d1.Setting = f(3, d1.Setting)
    for i in range(3):
        d2.Setting = i + Color.Blue
    yield_()
""",
]


def nshards(tier):
    return 16


def reference_options(main_src, caller):
    """the property's sentence, independently"""
    out = dict(caller)
    for line in main_src.splitlines():
        s = line.strip()
        if not s.startswith("#") or "pytrapic:" not in s:
            continue
        rest = s[1:].split("pytrapic:", 1)[1]
        for item in rest.split(","):
            name = item.strip().replace("-", "_")
            val = True
            if name.startswith("no_"):
                val, name = False, name[3:].strip()
            if name in OPTION_NAMES:
                out[name] = val
    return out


def neutralise(main_src):
    out = []
    for line in main_src.split("\n"):
        if line.strip().startswith("#"):
            line = line.replace("pytrapic:", "pytrapiq:")
        out.append(line)
    return "\n".join(out)


def check_case(case, stats=None):
    comp = repo.load()
    src, caller = case["src"], gopt.vector_from_bits(case["caller_bits"])
    expected = reference_options(src, caller)
    o1 = comp.CompileOptions(**caller)
    before = copy.deepcopy(o1)
    if stats is not None:
        stats.evaluations += 1
    try:
        r1 = comp.compile_code(src, o1)
    except BaseException as e:
        if type(e).__name__ == "_CaseTimeout":
            raise  # the runner's watchdog, not an exception of compile_code
        raise Violation("C15:compile_code-raises:" + type(e).__name__, {"error": repr(e)[:300], "caller": caller})
    if o1 != before:
        raise Violation("C15:caller-options-object-modified", {"before": vars(before), "after": vars(o1)})
    r2 = comp.compile_code(neutralise(src), comp.CompileOptions(**expected))
    p1, p2 = oracle.public(r1), oracle.public(r2)
    if p1 != p2:
        which = [k for k in OPTION_NAMES if expected[k] != caller[k]]
        raise Violation("C15:directive-result-differs-from-api-result",
                        {"caller": caller, "expected_options": expected, "changed_by_directives": which,
                         "with_directives": p1 if "error" in p1 else p1["code"][:600], "through_api": p2 if "error" in p2 else p2["code"][:600]})
    if stats is not None:
        nlines = case.get("ndirectives", 0)
        if "error" in p1:
            stats.discarded["reject"] += 1
            return
        stats.classes["directive-lines=%d" % min(nlines, 5)] += 1
        if case.get("flip"):
            stats.classes["option-named-twice-with-different-polarity"] += 1
        if expected != caller:
            stats.classes["expected-differs-from-caller"] += 1
        if case.get("decoy"):
            stats.classes["has-decoy"] += 1
        if case.get("unknown"):
            stats.classes["has-unknown-name"] += 1
        if nlines >= 2 and case.get("flip") and expected != caller:
            stats.nontrivial.add(sha([src, case["caller_bits"]])[:16])
            stats.sample({"source_head": src[:500], "caller": caller, "expected": expected}, limit=3)


def unknown_names():
    comp = repo.load()
    return sorted(set(dir(comp.CompileOptions())) - set(OPTION_NAMES)) + ["Compact", "COMPACT", "compactt", "no", "no_", "-", "inline", "labels",
                                                                           "no_no_compact", "remove labels", "compact=true", "compact;inline_functions"]


@st.composite
def directive_line(draw, state):
    items = []
    n = draw(st.integers(0, 4))
    for _ in range(n):
        k = draw(st.integers(0, 9))
        if k <= 6:
            name = OPTION_NAMES[draw(st.integers(0, 7))]
            val = draw(st.booleans())
            if name in state["seen"] and state["seen"][name] != val:
                state["flip"] = True
            state["seen"][name] = val
            text = name
            if draw(st.booleans()):
                text = text.replace("_", "-")
            elif draw(st.integers(0, 3)) == 0:
                # mixed
                text = text.replace("_", "-", 1)
            if not val:
                text = draw(st.sampled_from(["no-", "no_"])) + text
            items.append(text)
        elif k <= 8:
            u = unknown_names()
            items.append(u[draw(st.integers(0, len(u) - 1))])
            state["unknown"] = True
        else:
            items.append("")
    sep = draw(st.sampled_from([", ", ",", " , ", ",  "]))
    lead = draw(st.sampled_from(["# ", "#", "#  ", "# note ", "## "]))
    indent = draw(st.sampled_from(["", "", "    ", "\t", "  "]))
    gap = draw(st.sampled_from([" ", "", "  "]))
    return indent + lead + "pytrapic:" + gap + sep.join(items)


@st.composite
def cases(draw, exhaustive_subset=None):
    k = draw(st.integers(0, 9))
    if k <= 6:
        body = BASES[draw(st.integers(0, len(BASES) - 1))]
    else:
        body = draw(programs.program_cases(programs.Cfg(call_bias=20, max_funcs=3), nenv=0))["src"][""].split("\n", 1)[1]
    lines = body.rstrip("\n").split("\n")
    state = {"seen": {}, "flip": False, "unknown": False}
    nd = draw(st.integers(0, 5))
    decoy = False
    dirs = [draw(directive_line(state)) for _ in range(nd)]
    # placements: top, between statements (comment lines can stand anywhere), end
    for d in dirs:
        pos = draw(st.integers(0, len(lines)))
        lines.insert(pos, d)
    if draw(st.integers(0, 3)) == 0:
        decoy = True
        pos = draw(st.integers(0, len(lines)))
        lines.insert(pos, draw(st.sampled_from([
            'd4.Setting = 1  # pytrapic: compact, no-inline-functions',
            'd4.Setting = HASH("# pytrapic: compact")',
            'd4.Setting = STR("x")  # note pytrapic: remove-labels',
            'pass # pytrapic: use-push-pop-functions'])))
    src = programs.HDR + "\n".join(lines) + "\n"
    if draw(st.integers(0, 5)) == 0:
        src = "\n".join(lines[:1]) + "\n" + programs.HDR + "\n".join(lines[1:]) + "\n" if lines and lines[0].lstrip().startswith("#") else src
    return {"src": src, "caller_bits": draw(st.integers(0, 255)), "ndirectives": nd, "flip": state["flip"],
            "unknown": state["unknown"], "decoy": decoy}


def subset_cases():
    """one line naming subset S of the options positively, the rest negatively: all 256 S"""
    for bits in range(256):
        vec = gopt.vector_from_bits(bits)
        yield {"src": programs.HDR + gopt.pragma_line(vec) + "\n" + BASES[0], "caller_bits": (bits * 37 + 11) % 256, "ndirectives": 1,
               "flip": False, "unknown": False, "decoy": False}


def run_shard(ctx):
    subs = list(subset_cases())[ctx.shard::ctx.nshards]
    if ctx.quick():
        subs = subs[:: 4]
    for c in subs:
        try:
            check_case(c, ctx.stats)
            ctx.stats.classes["subset-family"] += 1
        except Violation as v:
            ctx.stats.violations.append({"signature": v.signature, "detail": v.detail, "case": c})
    hyp_search(ctx, cases(), lambda c: check_case(c, ctx.stats), ctx.scale(170, 3000))


def replay(case):
    try:
        check_case(case, None)
    except Violation as v:
        return {"kind": "violation", "signature": v.signature, "detail": v.detail}
    return {"kind": "ok"}
