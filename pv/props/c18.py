"""C18 - share links round-trip (DESIGN section 18)."""
import base64
import json
import re
import zlib

from hypothesis import strategies as st

from .. import repo
from ..runner import Violation, hyp_search, sha

ID = "C18"
LEVEL = "exploration"
RULE = (
    "Hypothesis: recursive JSON values under string-keyed dicts (None, bools, ints of any size, finite floats, "
    "full-Unicode text incl. astral, control and lone surrogate code points, lists, nested dicts) and the real payload shape "
    "{'code': text, 'options': {...}} incl. payloads of tens to hundreds of kilobytes; oracle: decode(encode(d)) == d, encoded matches [A-Za-z0-9_-]*, and an "
    "independent urlsafe-base64/zlib/json decoder agrees. Non-trivial: the encoded text contains '-' or '_' or "
    "its length is not a multiple of 4 (padding had to be restored); distinct by SHA-1 of the value."
)
ASSUMPTIONS = [
    "dictionary keys are strings and floats are finite (JSON object keys are strings; NaN != NaN)",
    "tuples are not generated (JSON turns them into lists by definition)",
    "lone surrogate code points (what a text cut in the middle of an emoji holds in Python) are generated, but never a "
    "high surrogate directly followed by a low one: JSON itself merges that pair into one astral character "
    "(json.loads(json.dumps(s)) != s already; observed while building the check, not a defect of the code)",
]
_PAIR = re.compile("([\ud800-\udbff])(?=[\udc00-\udfff])")


def no_pairs(s):
    """keep lone surrogates lone: separate a high surrogate from a directly following low one"""
    return _PAIR.sub(lambda m: m.group(1) + "-", s)


def surrogate_text(max_size=30):
    return st.text(alphabet=st.one_of(st.characters(min_codepoint=0xD800, max_codepoint=0xDFFF), st.characters(max_codepoint=0x2FF),
                                      st.sampled_from(["\U0001f600", "\ud83d", "\ude00", "a", "\n"])), max_size=max_size).map(no_pairs)

URLSAFE = re.compile(r"[A-Za-z0-9_-]*")


def nshards(tier):
    return 16


def json_values():
    leaves = st.one_of(
        st.none(),
        st.booleans(),
        st.integers(),
        st.integers(min_value=-(2**70), max_value=2**70),
        st.floats(allow_nan=False, allow_infinity=False),
        st.text(),
        st.text(alphabet=st.characters(min_codepoint=0, max_codepoint=0x10FFFF), max_size=40).map(no_pairs),
        surrogate_text(),
    )
    return st.recursive(
        leaves,
        lambda ch: st.one_of(st.lists(ch, max_size=6), st.dictionaries(st.text(max_size=8), ch, max_size=6)),
        max_leaves=25,
    )


PROGRAM_BITS = [
    "from stationeers_pytrapic.symbols import *\n", "while True:\n", "    db.Setting = d0.Setting + 1\n",
    "def f(a, b):\n    return a * b\n", "x = HASH(\"Größe ☃ 𝄞\")\n", "# pytrapic: compact, no-append-version\n",
    "    yield_()\n", "if d1.On > 0.5:\n    d2.On = 1\n", "\t", "\r\n", "\x00", "~~~~????>>>>", "ÿþý",
]


def payloads():
    code = st.one_of(
        st.text(max_size=400),
        st.lists(st.sampled_from(PROGRAM_BITS), max_size=30).map("".join),
        st.binary(max_size=300).map(lambda b: b.decode("latin-1")),
        # a source cut in the middle of a character outside the BMP
        st.tuples(st.lists(st.sampled_from(PROGRAM_BITS), max_size=6).map("".join), surrogate_text(8)).map(lambda t: t[0] + t[1]),
    )
    opts = st.dictionaries(st.sampled_from(repo.OPTION_NAMES + ["unknown", ""]), st.one_of(st.booleans(), st.none(), st.integers()), max_size=8)
    return st.fixed_dictionaries({"code": code, "options": opts})


def cases():
    top = st.one_of(
        st.dictionaries(st.text(max_size=10), json_values(), max_size=6),
        payloads(),
        # size-stratified: byte strings of every length so that len(encoded) % 4 takes each value
        st.integers(0, 200).flatmap(lambda n: st.fixed_dictionaries({"k": st.text(alphabet="abcXYZ019 ~?>", min_size=n, max_size=n)})),
        # large payloads (long programs: tens of kilobytes of JSON), built from a drawn piece and a repeat count
        st.tuples(st.text(min_size=20, max_size=120).map(no_pairs), st.integers(1, 600), st.text(max_size=40).map(no_pairs)).map(
            lambda t: {"code": (t[0] + "\n") * t[1] + t[2], "options": {"compact": True}}),
        # very large payloads (a main file plus many libraries: 64 KB - 400 KB of JSON)
        st.tuples(st.text(min_size=40, max_size=160).map(no_pairs), st.integers(700, 2500)).map(
            lambda t: {"code": {"": (t[0] + "\n") * t[1], "lib": t[0]}, "options": {}}),
    )
    return top


def independent_decode(enc):
    pad = "=" * (-len(enc) % 4)
    raw = base64.urlsafe_b64decode(enc + pad)
    return json.loads(zlib.decompress(raw).decode())


def check_one(d, stats=None):
    repo.load()
    from stationeers_pytrapic import types as T

    try:
        enc = T.encode_data(d)
    except Exception as e:
        raise Violation("encode-raises:" + type(e).__name__, {"error": repr(e)[:200]})
    if not isinstance(enc, str) or not URLSAFE.fullmatch(enc):
        bad = sorted(set(re.sub(r"[A-Za-z0-9_-]", "", enc))) if isinstance(enc, str) else None
        raise Violation("not-url-safe", {"bad_characters": bad})
    try:
        back = T.decode_data(enc)
    except Exception as e:
        raise Violation("decode-raises:" + type(e).__name__, {"error": repr(e)[:200], "encoded_len": len(enc), "mod4": len(enc) % 4})
    if back != d:
        raise Violation("round-trip-differs", {"encoded_len": len(enc)})
    try:
        ind = independent_decode(enc)
    except Exception as e:
        raise Violation("independent-decoder-rejects:" + type(e).__name__, {"error": repr(e)[:200]})
    if ind != d:
        raise Violation("independent-decoder-differs", {})
    if stats is not None:
        stats.evaluations += 1
        nt = ("-" in enc) or ("_" in enc) or (len(enc) % 4 != 0)
        stats.classes["mod4=%d" % (len(enc) % 4)] += 1
        if "-" in enc:
            stats.classes["has-minus"] += 1
        if "_" in enc:
            stats.classes["has-underscore"] += 1
        if isinstance(d, dict) and set(d) == {"code", "options"}:
            stats.classes["payload-shape"] += 1
        if nt:
            stats.nontrivial.add(sha(d)[:16])
        n = len(json.dumps(d))
        stats.classes["json-size:" + ("<1k" if n < 1000 else "1k-16k" if n < 16384 else "16k-64k" if n < 65536 else ">=64k")] += 1
        if re.search("[\ud800-\udfff]", json.dumps(d, ensure_ascii=False)):
            stats.classes["with-lone-surrogate"] += 1
        if n < 300:
            stats.sample({"value": d, "encoded": enc}, limit=3)


def run_shard(ctx):
    n = ctx.scale(500, 15000)
    hyp_search(ctx, cases(), lambda d: check_one(d, ctx.stats), n)


def replay(case):
    try:
        check_one(case)
    except Violation as v:
        return {"kind": "violation", "signature": v.signature, "detail": v.detail}
    return {"kind": "ok"}
