"""C03 - compile-time evaluation gives the same value the chip would compute (DESIGN section 3)."""
import math

from hypothesis import strategies as st

from .. import compare, ic10vm, oracle, repo, tables
from ..gen import programs
from ..runner import Violation, hyp_search, sha

ID = "C03"
LEVEL = "exploration"
RULE = (
    "(a) grid: every binary operator (18), unary operator, math function (10), HASH/STR, constant-list indexing and "
    "named constant x operand pairs from a stratified pool inside the unambiguous range; (b) Hypothesis expression "
    "trees of depth <= 4 over the same operators incl. propagation through single-assignment variables, constant "
    "lists and constant arguments of an inlined function. Oracle (metamorphic pair): program F uses literal operands "
    "(folded by the transpiler), program D is the same text with every literal c_i replaced by stack[i] after "
    "'stack[i] = c_i' (never folded); both are compiled and run on the reference machine and the k-th written value "
    "must agree (exact for integers < 2^53, 1e-15 relative otherwise). Non-trivial: F's code for the expression is a "
    "literal store (it was folded) while D's contains the run-time instruction; distinct by SHA-1 of the expression."
)
ASSUMPTIONS = [
    "operand literals have <= 15 significant digits, so the un-folded twin loads exactly the same doubles",
    "and/or operands are 0/1 (non-boolean operands: open finding F-D7b); comparisons are generated on integers; "
    "bitwise/shift on integers < 2^20 with shifts < 31; modulus and divisor are non-zero positive literals; pow has a "
    "real finite result; results that overflow to inf/NaN are outside the property's domain and discarded",
]
POOL = ["0", "1", "2", "3", "7", "10", "16", "255", "1000", "65536", "0.5", "0.25", "0.1", "1.5", "2.75", "0.001", "1000000",
        "123.456", "99.9", "3.14159", "1e-05", "2147483647", "4503599627370496", "0.3", "12345.678"]
BIGINTS = ["123456789", "1103515245", "2147483647", "4294967291", "999999937", "94906267", "67108865", "3037000507"]
INTS = ["0", "1", "2", "3", "5", "7", "12", "255", "1000", "65535", "1048575"]
SHIFTS = ["0", "1", "2", "5", "16", "30"]
BOOLS = ["0", "1"]
NONZERO = ["1", "2", "3", "7", "10", "0.5", "0.25", "1.5", "1000", "0.001"]
# neighbouring values: a comparison must tell them apart exactly as seq/sne/slt do at run time
NEAR = [("2000000001", "2000000002"), ("1000000", "1000000.000001"), ("0.1", "0.100000000000001"), ("4503599627370496", "4503599627370497"),
        ("123.456", "123.456000001"), ("1e-05", "1.00000001e-05"), ("65536", "65536.0001"), ("0.3", "0.3"), ("99.9", "99.9")]
MATH1 = ["sin", "cos", "tan", "atan", "exp"]
# names whose first / last characters also occur in the spelling HASH("..") itself
HASH_NAMES = ["O2", "Main Base", "x", "Storage Tank", "Pump (2)", "Sensor", "HASH", "A", "(x)", "Heater (A)", "SH", "abc)", "Airlock", "H"]


def nshards(tier):
    return 16


class Leaf:
    def __init__(self, text):
        self.text = text


class E:
    """expression with literal leaves; render(False) = folded form, render(True) = stack-loaded form"""

    def __init__(self, fmt, kids=(), leaf=None):
        self.fmt, self.kids, self.leaf = fmt, list(kids), leaf

    def leaves(self, acc):
        if self.leaf is not None:
            acc.append(self)
        for k in self.kids:
            k.leaves(acc)
        return acc

    def render(self, dyn, index):
        if self.leaf is not None:
            return f"stack[{index[id(self)]}]" if dyn else self.leaf
        return self.fmt.format(*[k.render(dyn, index) for k in self.kids])


def lit(t):
    return E(None, leaf=t)


def const(t):
    """a constant that stays as it is in both programs (HASH, pi, list literal ...)"""
    return E(t.replace("{", "{{").replace("}", "}}"))


def gen_num(draw, d):
    k = draw(st.integers(0, 99)) if d < 4 else 0
    ch = lambda seq: seq[draw(st.integers(0, len(seq) - 1))]
    if k < 22:
        return lit(ch(POOL))
    if k < 40:
        return E("({} " + ch(["+", "-", "*"]) + " {})", [gen_num(draw, d + 1), gen_num(draw, d + 1)])
    if k < 47:
        return E("({} / {})", [gen_num(draw, d + 1), lit(ch(NONZERO))])
    if k < 52:
        return E("({} % {})", [gen_num(draw, d + 1), lit(ch(NONZERO))])
    if k < 57:
        return E("({} ** {})", [lit(ch(["0", "1", "2", "3", "10", "0.5", "1.5"])), lit(ch(["0", "1", "2", "3", "0.5"]))])
    if k < 62:
        return E("(-{})", [gen_num(draw, d + 1)])
    if k < 68:
        return E(ch(MATH1) + "({})", [lit(ch(["0", "0.5", "1", "2", "0.1", "3"]))])
    if k < 71:
        return E(ch(["sqrt", "log"]) + "({})", [lit(ch(["1", "2", "0.5", "10", "1000", "0.25"]))])
    if k < 74:
        return E(ch(["asin", "acos"]) + "({})", [lit(ch(["0", "0.5", "1", "0.25", "0.1"]))])
    if k < 77:
        return E("atan2({}, {})", [lit(ch(POOL[:12])), lit(ch(NONZERO))])
    if k < 82:
        return gen_int(draw, d + 1)
    if k < 87:
        return gen_bool(draw, d + 1)
    if k < 90:
        return const(ch(["pi", "tau", "rgas", 'STR("AB")', 'STR("Day")'] + [f'HASH("{n}")' for n in HASH_NAMES]))
    if k < 94:
        n = draw(st.integers(1, 5))
        items = [ch(POOL[:14]) for _ in range(n)]
        return const("[" + ", ".join(items) + f"][{draw(st.integers(0, n - 1))}]")
    if k < 97:
        if draw(st.booleans()):
            # a hash constant as the left operand of a positive modulus / divisor (hashes may be negative, so
            # they are never the right operand of % or /)
            return E("(" + ch([f'HASH("{n}")' for n in HASH_NAMES]) + " " + ch(["%", "/", "-", "+"]) + " {})", [lit(ch(NONZERO))])
        return E("({} " + ch(["+", "-", "*"]) + " " + ch(["pi"] + [f'HASH("{n}")' for n in HASH_NAMES]) + ")", [gen_num(draw, d + 1)])
    if k < 99:
        # integer constants whose exact product / power / sum does not fit into the 53 bits of a double: the chip
        # rounds the intermediate result, so the folder must round it too before it reduces or subtracts
        form = draw(st.integers(0, 3))
        if form == 0:
            return E("(({} * {} + {}) % {})", [lit(ch(BIGINTS)), lit(ch(BIGINTS)), lit(ch(INTS)), lit(ch(["2147483648", "1000003", "7", "65536", "1000"]))])
        if form == 1:
            return E("(({} * {}) - ({} * {} - {}))", [lit(ch(BIGINTS)), lit(ch(BIGINTS)), lit(ch(BIGINTS)), lit(ch(BIGINTS)), lit(ch(INTS))])
        if form == 2:
            return E("(({} ** {}) % {})", [lit(ch(["3", "7", "10", "5"])), lit(ch(["30", "40", "25", "36"])), lit(ch(["7", "1000", "11", "64"]))])
        return E("(({} + {}) - {})", [lit(ch(["9007199254740992", "18014398509481984"])), lit(ch(["1", "3", "5"])), lit(ch(["9007199254740992", "18014398509481984"]))])
    return lit(ch(POOL))


def gen_int(draw, d):
    k = draw(st.integers(0, 99)) if d < 4 else 0
    ch = lambda seq: seq[draw(st.integers(0, len(seq) - 1))]
    if k < 30:
        return lit(ch(INTS))
    if k < 50:
        return E("({} " + ch(["&", "^"]) + " {})", [gen_int(draw, d + 1), gen_int(draw, d + 1)])
    if k < 65:
        return E("({} >> {})", [gen_int(draw, d + 1), lit(ch(SHIFTS))])
    if k < 80:
        return E("({} << {})", [lit(ch(INTS)), lit(ch(SHIFTS))])
    if k < 90:
        return E("({} + {})", [lit(ch(INTS)), lit(ch(INTS))])
    return lit(ch(INTS))


def gen_bool(draw, d):
    k = draw(st.integers(0, 99)) if d < 4 else 0
    ch = lambda seq: seq[draw(st.integers(0, len(seq) - 1))]
    cmp_ = ch(["==", "!=", "<", "<=", ">", ">="])
    if k < 45:
        return E("({} " + cmp_ + " {})", [gen_int(draw, d + 1), gen_int(draw, d + 1)])
    if k < 52:
        return E("({} " + cmp_ + " {})", [lit(ch(POOL)), lit(ch(POOL))])
    if k < 60:
        a, b = ch(NEAR)
        if draw(st.booleans()):
            a, b = b, a
        return E("({} " + cmp_ + " {})", [lit(a), lit(b)])
    if k < 80:
        return E("({} " + ch(["and", "or"]) + " {})", [gen_bool(draw, d + 1), gen_bool(draw, d + 1)])
    if k < 90:
        return E("(not {})", [gen_bool(draw, d + 1)])
    return lit(ch(BOOLS))


def grid_exprs():
    """every operator x operand pairs (enumerated, not drawn)"""
    out = []
    for op in ["+", "-", "*"]:
        for a in POOL[::2]:
            for b in POOL[1::3]:
                out.append(E("({} " + op + " {})", [lit(a), lit(b)]))
    for op in ["/", "%"]:
        for a in POOL[::2]:
            for b in NONZERO:
                out.append(E("({} " + op + " {})", [lit(a), lit(b)]))
    for a in ["0", "1", "2", "3", "10", "0.5", "1.5", "7"]:
        for b in ["0", "1", "2", "3", "0.5"]:
            out.append(E("({} ** {})", [lit(a), lit(b)]))
    for op in ["&", "^"]:
        for a in INTS:
            for b in INTS[::2]:
                out.append(E("({} " + op + " {})", [lit(a), lit(b)]))
    for op in [">>", "<<"]:
        for a in INTS:
            for b in SHIFTS:
                if op == "<<" and int(a) << int(b) >= 2**53:
                    continue
                out.append(E("({} " + op + " {})", [lit(a), lit(b)]))
    for op in ["==", "!=", "<", "<=", ">", ">="]:
        for a in INTS[:7] + ["0.5", "2.75"]:
            for b in INTS[:7] + ["0.5"]:
                out.append(E("({} " + op + " {})", [lit(a), lit(b)]))
    for op in ["==", "!=", "<", "<=", ">", ">="]:
        for a, b in NEAR:
            out.append(E("(({} " + op + " {}) + 0)", [lit(a), lit(b)]))
            out.append(E("(({} " + op + " {}) * 10)", [lit(b), lit(a)]))
    for op in ["and", "or"]:
        for a in BOOLS:
            for b in BOOLS:
                out.append(E("({} " + op + " {})", [lit(a), lit(b)]))
                out.append(E("(({} == 1) " + op + " ({} == 1))", [lit(a), lit(b)]))
    for a in POOL:
        out.append(E("(-{})", [lit(a)]))
    for a in BOOLS + ["2", "0.5"]:
        out.append(E("(not {})", [lit(a)]))
    for f in MATH1 + ["sqrt", "log"]:
        for a in ["0.5", "1", "2", "0.1", "3", "10", "0.25"]:
            out.append(E(f + "({})", [lit(a)]))
    for f in ["asin", "acos"]:
        for a in ["0", "0.5", "1", "0.25", "0.1"]:
            out.append(E(f + "({})", [lit(a)]))
    for a in POOL[:12]:
        for b in NONZERO[:5]:
            out.append(E("atan2({}, {})", [lit(a), lit(b)]))
    for c in ["pi", "tau", "rgas", 'STR("AB")', "[4, 5, 6][2]", "[0.5][0]"] + [f'HASH("{n}")' for n in HASH_NAMES]:
        out.append(E("({} + " + c + ")", [lit("1")]))
        out.append(E("({} * " + c + ")", [lit("2")]))
    return out


def build_pair(exprs, style):
    """-> (F source, D source).  style: 0 direct, 1 through single-assignment variables, 2 through an
    inlined function's constant arguments"""
    index, fl, dl, pre = {}, [], [], []
    n = 0
    for e in exprs:
        for lf in e.leaves([]):
            if id(lf) not in index:
                index[id(lf)] = 100 + n
                pre.append(f"stack[{100 + n}] = {lf.leaf}")
                n += 1
    for i, e in enumerate(exprs):
        f, d = e.render(False, index), e.render(True, index)
        if style == 1:
            fl += [f"k{i} = {f}", f"db.Setting = k{i}"]
            dl += [f"k{i} = {d}", f"db.Setting = k{i}"]
        else:
            fl.append(f"db.Setting = {f}")
            dl.append(f"db.Setting = {d}")
    return programs.HDR + "\n".join(fl) + "\n", programs.HDR + "\n".join(pre + dl) + "\n"


def run_trace(code):
    m = ic10vm.Machine(code, compare.make_env(0, [0.0]), tables.enum_tables(), max_steps=20000, max_effects=500)
    m.run()
    return [e[3] for e in m.trace if e[0] == "s"]


def agree(a, b):
    if math.isnan(a) and math.isnan(b):
        return True
    if a == b:
        return True
    if math.isinf(a) or math.isinf(b) or math.isnan(a) or math.isnan(b):
        return False
    if a == math.floor(a) and b == math.floor(b) and abs(a) < 2**53 and abs(b) < 2**53:
        return False
    return abs(a - b) <= 1e-15 * max(abs(a), abs(b))


def check_exprs(exprs, style, stats=None):
    fsrc, dsrc = build_pair(exprs, style)
    rf = oracle.compile_case({"": fsrc}, {})
    rd = oracle.compile_case({"": dsrc}, {})
    if "error" in rd:
        if stats is not None:
            stats.discarded["reject-unfolded:" + oracle.norm_error(rd["error"]["description"])] += 1
        return
    if "error" in rf:
        # the folder rejected what the run-time form accepts: a violation when the run-time values are in the
        # domain (finite) - the folded program must then give exactly these values
        desc = rf["error"]["description"]
        try:
            td = run_trace(rd["code"])
        except ic10vm.VMError:
            td = []
        if not oracle.out_of_registers(desc) and len(td) == len(exprs) and all(math.isfinite(x) for x in td):
            raise Violation("C03:folding-rejects-an-expression-the-run-time-form-computes:" + oracle.error_class(desc).split(":")[0],
                            {"expressions": [e.render(False, {}) for e in exprs], "error": desc[:300], "run_time_values": td, "style": style})
        if stats is not None:
            stats.discarded["reject-folded:" + oracle.error_class(desc)] += 1
        return
    try:
        tf, td = run_trace(rf["code"]), run_trace(rd["code"])
    except ic10vm.VMError as e:
        raise Violation("C09:vmerror:" + e.kind, {"error": str(e), "folded_code": rf["code"]})
    if len(tf) != len(exprs) or len(td) != len(exprs):
        raise Violation("C03:store-count-differs", {"folded": len(tf), "unfolded": len(td), "expected": len(exprs)})
    flines = [l for l in rf["code"].split("\n")]
    # per expression: folded iff its statement compiled to the store alone
    seg, folded = 0, []
    for l in flines:
        t = ic10vm.tokenize(l)
        if not t:
            continue
        if t[:3] == ["s", "db", "Setting"]:
            folded.append(seg == 0 and not ic10vm.REG_RE.match(t[3]))
            seg = 0
        else:
            seg += 1
    if len(folded) != len(exprs):
        folded = [False] * len(exprs)
    folded_all = all(folded)
    for i, e in enumerate(exprs):
        text = e.render(False, {})
        if stats is not None:
            stats.evaluations += 1
        a, b = tf[i], td[i]
        if math.isinf(b) or math.isnan(b):
            if stats is not None:
                stats.discarded["result-not-finite"] += 1
            continue
        if not agree(a, b):
            raise Violation("C03:folded-value-differs-from-run-time-value:" + "+".join(op_of(e))[:30] + nonbool_suffix(e),
                            {"expression": text, "folded": a, "run_time": b, "style": style})
        if stats is not None:
            for o in op_of(e):
                stats.classes["op:" + o] += 1
            if folded[i]:
                stats.nontrivial.add(sha(text)[:16])
                stats.classes["folded-expressions"] += 1
    if stats is not None:
        stats.classes["folded-completely" if folded_all else "partly-folded"] += 1
        stats.sample({"expressions": [e.render(False, {}) for e in exprs[:3]], "folded_code": flines[:3], "values": tf[:3]}, limit=3)


def nonbool_suffix(e):
    """and/or applied directly to a literal other than 0/1 (open finding F-D7b)"""
    import re as _re

    if e.leaf is not None:
        return ""
    if _re.search(r"\b(and|or)\b", e.fmt):
        if any(k.leaf is not None and k.leaf not in ("0", "1") for k in e.kids):
            return ":non-boolean-operand"
    return "".join(sorted({nonbool_suffix(k) for k in e.kids}))


def op_of(e):
    if e.leaf is not None:
        return ["literal"]
    import re as _re

    f = _re.sub(r"\{\d*\}", " ", e.fmt.replace("{{", "").replace("}}", ""))
    f = _re.sub(r"\[[^\]]*\]\[\d+\]", " constlist ", f)
    toks = [t for t in _re.split(r"[\s(),]+", f) if t and not _re.match(r"^[\d.]+$", t)]
    ops = [t for t in toks if not t.startswith('"') and not t.endswith('"')]
    return sorted(set(ops)) if ops else ["literal"]


@st.composite
def tree_cases(draw):
    n = draw(st.integers(1, 12))
    seeds = []
    return {"kind": "trees", "exprs": [draw(st.integers(0, 2**32)) for _ in range(n)], "style": draw(st.integers(0, 1))}


def check_case(case, stats=None):
    if case["kind"] == "grid":
        allg = grid_exprs()
        exprs = [allg[i] for i in case["indices"]]
    else:
        exprs = case["_exprs"] if "_exprs" in case else rebuild(case)
    check_exprs(exprs, case.get("style", 0), stats)


def rebuild(case):
    """replay: expression trees are stored as rendered text pairs"""
    out = []
    for f, leaves in case["rendered"]:
        out.append(Fixed(f, leaves))
    return out


class Fixed(E):
    """an expression restored from a replay file: text with {0},{1}.. placeholders and its leaf literals"""

    def __init__(self, fmt, leaves):
        self.fmt = fmt
        self.kids = [lit(l) for l in leaves]
        self.leaf = None


def to_fixed(e):
    lv = e.leaves([])
    idx = {id(l): i for i, l in enumerate(lv)}

    def r(x):
        if x.leaf is not None:
            return "{%d}" % idx[id(x)]
        return x.fmt.format(*[r(k) for k in x.kids]).replace("{{", "{").replace("}}", "}") if False else x.fmt.format(*[r(k) for k in x.kids])

    return [r(e), [l.leaf for l in lv]]


@st.composite
def drawn_trees(draw):
    n = draw(st.integers(1, 10))
    exprs = [gen_num(draw, 0) if draw(st.integers(0, 3)) else gen_bool(draw, 0) for _ in range(n)]
    return {"kind": "trees", "style": draw(st.integers(0, 1)), "rendered": [to_fixed(e) for e in exprs]}


def run_shard(ctx):
    allg = grid_exprs()
    idx = list(range(len(allg)))[ctx.shard::ctx.nshards]
    if ctx.quick():
        # seeded 1/3 sample of this shard's slice of the grid
        idx = [i for k, i in enumerate(idx) if (k + ctx.seed) % 3 == 0]
    ctx.stats.extra["grid_size"] = len(allg) if ctx.shard == 0 else 0
    for group in [idx[i:i + 30] for i in range(0, len(idx), 30)]:
        case = {"kind": "grid", "indices": group, "style": 0}
        try:
            check_case(case, ctx.stats)
        except Violation as v:
            # narrow down to a single expression for the replay file
            for i in group:
                one = {"kind": "grid", "indices": [i], "style": 0}
                try:
                    check_case(one, None)
                except Violation as v1:
                    if v1.signature in ctx.known_signatures:
                        ctx.stats.known[ctx.known_signatures[v1.signature]] += 1
                    else:
                        ctx.stats.violations.append({"signature": v1.signature, "detail": v1.detail, "case": one})
    hyp_search(ctx, drawn_trees(), lambda c: check_case(c, ctx.stats), ctx.scale(60, 2500))


def replay(case):
    try:
        check_case(case, None)
    except Violation as v:
        return {"kind": "violation", "signature": v.signature, "detail": v.detail}
    return {"kind": "ok"}
