"""C12 - constexpr calls are replaced by exactly what the function returns (DESIGN section 12)."""
import enum
import json
import math
import re

from hypothesis import strategies as st

from .. import compare, ic10vm, oracle, repo, tables
from ..gen import programs
from ..runner import Violation, hyp_search, sha
from . import c16

ID = "C12"
LEVEL = "exploration"
STUCK_S = 240  # a single case may legitimately take this long (seconds) before the runner calls it stuck
RULE = (
    "Hypothesis-constructed @constexpr functions (pure Python over numbers, strings and enum members: arithmetic, bit "
    "operations, comparisons, if/else, bounded for/while loops, len/ord/indexing/concatenation of strings, HASH(..), "
    "default and keyword arguments, one constexpr calling another, a library-module constexpr called qualified, main file "
    "and library defining constexpr functions of the same names, a twin program compiled next in the same process that "
    "differs only in a helper's body) x "
    "argument expressions (ints, floats, negative numbers, strings with blanks/quotes/backslashes/non-ASCII, enum "
    "members, nested arithmetic, keyword form) x call positions (main code, inside inlined and non-inlined functions, "
    "nested in a larger expression, argument of a user call, if test, loop body); oracle: the function text is executed "
    "directly by the checker (own namespace: HASH = own signed CRC-32, enum classes rebuilt from the ast-parsed table) "
    "and the value each call site writes on the reference machine must equal it (exact <= 2^53, 1e-15 otherwise); "
    "replacing every call by its literal and deleting the definitions must give the same trace and instruction "
    "count; bodies mentioning open/eval/exec must be rejected. Non-trivial: the body has a branch or loop and the "
    "call passes a non-default argument; distinct by SHA-1 of (function text, call text)."
)
ASSUMPTIONS = [
    "each distinct call spawns a child interpreter with a 1 s limit: a 'Timeout during evaluating' error on a terminating "
    "body is retried once on an idle worker and otherwise counted as inconclusive",
    "constexpr results are numbers or booleans (what a device write can take)",
    "an unqualified call of a library constexpr from inside that library is open finding F-D26 and not generated",
]
HDR = programs.HDR
WORKERS = 2  # each constexpr call spawns a child with a 1 s limit: keep the machine idle enough


def nshards(tier):
    return 6 if tier == "quick" else 16


_ns = None


def namespace():
    global _ns
    if _ns is None:
        ns = {"HASH": c16.crc32_signed, "constexpr": lambda f: f}
        for cls, members in c16.parse_enums().items():
            ns[cls] = enum.IntEnum(cls, members)
        _ns = ns
    return dict(_ns)


STRS = ["x y", "O2", "it's", 'say "hi"', "a\\b", "ü☃", "", "Bank 1", "ItemSteelIngot"]
ENUMS = ["SortingClass.Ores", "SortingClass.Ices", "SorterInstruction.FilterPrefabHashEquals", "Color.Blue", "LogicType.Setting",
         "SlotClass.Battery", "GasType.Oxygen"]


# {0}..{6}: names given at generation time
STRUCT_FUNCS = [
    "def {0}():\n    return {{1: 16, 2: 32, 3: 48}}\n",
    "def {1}(t, n):\n    return t.get(n, 0) << 8 | n\n",
    "def {2}(a):\n    return (a, a + 1)\n",
    "def {3}(p):\n    return 7 if isinstance(p, tuple) else -7\n",
    "def {4}(kind):\n    return SortingClass.Ores if kind == 'ore' else SortingClass.Ices\n",
    "def {5}(c):\n    return (HASH(c.name) & 65535) | int(c) << 16\n",
    "def {6}(p, k=0):\n    return p[0] * 100 + p[1] + k + (5 if p == (p[0], p[1]) else 0)\n",
]
# (index of the outer function, call text)
STRUCT_CALLS = [(1, "{1}({0}(), 2)"), (1, "{1}(t={0}(), n=3)"), (3, "{3}({2}(4))"), (5, "{5}({4}('ore'))"), (5, "{5}({4}('ice'))"),
                (6, "{6}({2}(3), k=2)"), (6, "{6}({2}(1))"), (6, "{6}((2, 3))")]


@st.composite
def function_def(draw, name, earlier, in_lib=False):
    """-> (source text, signature info)"""
    npar = draw(st.integers(1, 3))
    kinds = [draw(st.sampled_from(["int", "int", "num", "str"])) for _ in range(npar)]
    params = [f"{'abc'[i]}" for i in range(npar)]
    defaults = {}
    for i in range(npar - 1, -1, -1):
        if draw(st.booleans()) and (i == npar - 1 or params[i + 1] in defaults):
            defaults[params[i]] = {"int": draw(st.sampled_from(["3", "0", "-2", "255"])), "num": draw(st.sampled_from(["0.5", "2", "-1.25"])),
                                   "str": repr(draw(st.sampled_from(STRS)))}[kinds[i]]
        else:
            break
    sig = ", ".join(p + (f"={defaults[p]}" if p in defaults else "") for p in params)
    L = [f"def {name}({sig}):"]
    ints = [p for p, k in zip(params, kinds) if k == "int"]
    nums = [p for p, k in zip(params, kinds) if k in ("int", "num")]
    strs = [p for p, k in zip(params, kinds) if k == "str"]
    L.append("    x = " + (draw(st.sampled_from(ints)) if ints else "7"))
    L.append("    y = " + (f"{draw(st.sampled_from(nums))} * 2 + 1" if nums else "1.5"))
    shape = {"branch": False, "loop": False}
    for _ in range(draw(st.integers(1, 4))):
        k = draw(st.integers(0, 11))
        if k == 0:
            L.append(f"    x = (x << {draw(st.integers(1, 8))}) | {draw(st.integers(0, 255))}")
        elif k == 1:
            L.append(f"    x = (x * {draw(st.integers(2, 9))} + {draw(st.integers(0, 99))}) & 0xFFFFFF")
        elif k == 2 and nums:
            p = draw(st.sampled_from(nums))
            L += [f"    if {p} > {draw(st.sampled_from(['0', '2', '10']))}:", f"        y = y + {p}", "    else:", f"        y = y - 1"]
            shape["branch"] = True
        elif k == 3:
            L += [f"    for i in range({draw(st.integers(1, 5))}):", "        x += i", "        y = y * 1.5"]
            shape["loop"] = True
        elif k == 4:
            L += ["    n = 0", f"    while x > {draw(st.sampled_from(['10', '100', '3']))} and n < 20:", "        x = x >> 1", "        n += 1", "    y += n"]
            shape["loop"] = True
        elif k == 5 and strs:
            s_ = draw(st.sampled_from(strs))
            L.append(f"    x = x + len({s_}) + (HASH({s_}) & 1023)")
        elif k == 6 and strs:
            s_ = draw(st.sampled_from(strs))
            L.append(f"    x = x + (HASH({s_} + {draw(st.sampled_from(STRS))!r}) >> 4)")
        elif k == 7 and strs:
            s_ = draw(st.sampled_from(strs))
            L += [f"    if len({s_}) > 0:", f"        x += ord({s_}[0])", "        shape_ok = True"]
            shape["branch"] = True
        elif k == 8:
            L.append(f"    x = x + ({draw(st.sampled_from(ENUMS))} << {draw(st.integers(0, 8))})")
        elif k == 9 and earlier and not in_lib:
            # (inside a library this is open finding F-D26: the evaluation script wraps the library's
            # functions in `class lib:` and the unqualified call raises NameError)
            e = earlier[draw(st.integers(0, len(earlier) - 1))]
            L.append(f"    y = y + {e['call_int']}")
        elif k == 10:
            L.append(f"    y = y / {draw(st.sampled_from(['2', '4', '3', '0.5']))}")
        else:
            L.append(f"    x = x ^ {draw(st.integers(0, 4095))}")
    ret = draw(st.sampled_from(["x", "y", "x + y", "x > 100", "x if x > y else y", "-x", "x % 7", "y * 0.125"]))
    if "if" in ret:
        shape["branch"] = True
    L.append(f"    return {ret}")
    return "\n".join(L), {"name": name, "params": params, "kinds": kinds, "defaults": defaults, "shape": shape}


@st.composite
def call_text(draw, info, prefix=""):
    args, nondefault = [], False
    kw = False
    for p, k in zip(info["params"], info["kinds"]):
        if p in info["defaults"] and draw(st.booleans()):
            kw = True  # everything after a skipped parameter must be given by keyword
            continue
        nondefault = True
        if k == "int":
            v = draw(st.sampled_from(["0", "1", "2", "5", "12", "255", "-3", "(1 + 2) * 3", "2 ** 4", "SortingClass.Ores", "SlotClass.Battery", "0x10"]))
        elif k == "num":
            v = draw(st.sampled_from(["0.5", "2", "-1.25", "1e3", "3 / 4", "10", "(0.25 + 1)"]))
        else:
            v = repr(draw(st.sampled_from(STRS)))
        if kw or draw(st.integers(0, 3)) == 0:
            kw = True
            args.append(f"{p}={v}")
        else:
            args.append(v)
    return f"{prefix}{info['name']}({', '.join(args)})", nondefault


@st.composite
def cases(draw):
    nf = draw(st.integers(1, 3))
    funcs, infos = [], []
    where = draw(st.sampled_from(["main", "main", "main", "lib", "both"]))
    in_lib = where == "lib"
    for i in range(nf):
        src, info = draw(function_def(f"cx{i}", infos, in_lib))
        # a plain call usable from later constexpr bodies
        ct, _ = draw(call_text(info))
        info["call_int"] = ct
        funcs.append(src)
        infos.append(info)
    lib_funcs, lib_infos = [], []
    if where == "both":
        # the library defines constexpr functions with the SAME names as the main file (other bodies, other
        # signatures): a bare call means the main file's function, a qualified call the library's
        for i in range(nf):
            src, info = draw(function_def(f"cx{i}", lib_infos, True))
            info["call_int"] = draw(call_text(info))[0]
            lib_funcs.append(src)
            lib_infos.append(info)
    calls = []
    for _ in range(draw(st.integers(1, 5))):
        use_lib = in_lib or (where == "both" and draw(st.booleans()))
        pool = lib_infos if (where == "both" and use_lib) else infos
        info = pool[draw(st.integers(0, len(pool) - 1))]
        ct, nd = draw(call_text(info, "cl." if use_lib else ""))
        pos = draw(st.integers(0, 6))
        calls.append({"text": ct, "func": info["name"], "nondefault": nd, "pos": pos, "lib": use_lib})
    if where == "main" and draw(st.integers(0, 2)) == 0:
        # constexpr calls nested as arguments of constexpr calls, the inner one returning something that is not a
        # scalar (a dict with integer keys, a tuple, an enum member): under ordinary Python evaluation the outer
        # function receives that very object
        base = len(funcs)
        names = [f"cx{base + j}" for j in range(len(STRUCT_FUNCS))]
        for j, body in enumerate(STRUCT_FUNCS):
            src = body.format(*names)
            funcs.append(src)
            infos.append({"name": names[j], "params": [], "kinds": [], "defaults": {}, "shape": {"branch": True, "loop": False}, "call_int": "0"})
        for _ in range(draw(st.integers(1, 3))):
            outer, text = draw(st.sampled_from(STRUCT_CALLS))
            calls.append({"text": text.format(*names), "func": names[outer], "nondefault": True, "pos": draw(st.integers(0, 6)), "lib": False, "nested": True})
    case = {"funcs": funcs, "infos": [{k: v for k, v in i.items()} for i in infos], "calls": calls, "in_lib": in_lib,
            "lib_funcs": lib_funcs, "lib_infos": [{k: v for k, v in i.items()} for i in lib_infos],
            "opts": draw(st.sampled_from([{}, {"inline_functions": False}, {"compact": True, "remove_labels": True}]))}
    if nf >= 2 and where == "main" and draw(st.booleans()):
        # a second program, compiled right afterwards in the same process: identical except for the body of the
        # first function, which later functions may call (a result remembered per caller text would be stale)
        lines = funcs[0].rstrip("\n").split("\n")
        if lines[-1].startswith("    return "):
            lines[-1] = "    return (" + lines[-1][len("    return "):] + ") + 1000"
            case["twin_first_function"] = "\n".join(lines) + "\n"
    return case


def render(case, literal_values=None):
    """literal_values: list parallel to calls -> program with the calls replaced and definitions removed"""
    L = [HDR.rstrip("\n")]
    lib = None
    defs = "".join("@constexpr\n" + f + "\n" for f in case["funcs"])
    if literal_values is None:
        if case["in_lib"]:
            L.append("from library import cl")
            lib = HDR + defs
        else:
            if case.get("lib_funcs"):
                L.append("from library import cl")
                lib = HDR + "".join("@constexpr\n" + f + "\n" for f in case["lib_funcs"])
            L.append(defs.rstrip("\n"))
    body, fn_defs, marker = [], [], 0
    for i, c in enumerate(case["calls"]):
        t = c["text"] if literal_values is None else literal_values[i]
        marker += 1
        dev = f"d{i % 6}.Setting"
        p = c["pos"]
        if p == 0:
            body.append(f"{dev} = {t}")
        elif p == 1:
            body.append(f"{dev} = {t} + d0.On")
        elif p == 2:
            fn_defs += [f"def once{i}():", f"    {dev} = {t}"]
            body.append(f"once{i}()")
        elif p == 3:
            fn_defs += [f"def twice{i}(q):", f"    {dev} = {t} + q"]
            body += [f"twice{i}(1)", f"twice{i}(2)"]
        elif p == 4:
            fn_defs += [f"def show{i}(q):", f"    {dev} = q"]
            body += [f"show{i}({t})", f"show{i}(d1.On)"]
        elif p == 5:
            body += [f"if {t} > d2.On:", f"    {dev} = {marker}", "else:", f"    {dev} = -{marker}"]
        else:
            body += [f"for i{i} in range(2):", f"    {dev} = {t} + i{i}"]
    L += fn_defs
    L.append("while True:")
    L += ["    " + b for b in body]
    L.append("    yield_()")
    srcs = {"": "\n".join(L) + "\n"}
    if lib:
        srcs["cl"] = lib
    return srcs


def fmt_literal(v):
    if isinstance(v, bool):
        return "1" if v else "0"
    return repr(v)


def expected_values(case):
    ns = namespace()
    for f in case["funcs"]:
        exec(f, ns)
    lib_ns = ns
    if case.get("lib_funcs"):
        lib_ns = namespace()
        for f in case["lib_funcs"]:
            exec(f, lib_ns)
    out = []
    for c in case["calls"]:
        text = c["text"][3:] if c["text"].startswith("cl.") else c["text"]
        v = eval(text, lib_ns if c["text"].startswith("cl.") else ns)
        v = json.loads(json.dumps(v))  # what the child process hands back
        out.append(v)
    return out


def nlines(code):
    return sum(1 for l in code.split("\n") if ic10vm.tokenize(l) and not ic10vm.tokenize(l)[0].endswith(":"))


def check_case(case, stats=None, K=30):
    if case.get("forbidden"):
        return check_forbidden(case, stats)
    check_one_program(case, stats, K)
    if case.get("twin_first_function"):
        twin = dict(case, funcs=[case["twin_first_function"]] + list(case["funcs"][1:]))
        twin.pop("twin_first_function")
        check_one_program(twin, stats, K)
        if stats is not None:
            stats.classes["twin-program-with-changed-helper"] += 1


def check_one_program(case, stats=None, K=30):
    opts = dict(case.get("opts") or {})
    try:
        exp = expected_values(case)
    except Exception as e:
        if stats is not None:
            stats.evaluations += 1
            stats.discarded["generated-function-raises:" + type(e).__name__] += 1
        return
    if any(not isinstance(v, (int, float, bool)) or (isinstance(v, float) and not math.isfinite(v)) for v in exp):
        if stats is not None:
            stats.discarded["non-numeric-or-non-finite-result"] += 1
        return
    srcs = render(case)
    res = oracle.compile_case(srcs, opts)
    if stats is not None:
        stats.evaluations += len(case["calls"])
    if "error" in res and oracle.helper_timeout(res["error"]["description"]):
        res = oracle.compile_case(srcs, opts)
        if "error" in res and oracle.helper_timeout(res["error"]["description"]):
            if stats is not None:
                stats.discarded["inconclusive:child-timeout-under-load"] += 1
            return
    lit = render(case, [fmt_literal(v) for v in exp])
    res2 = oracle.compile_case(lit, opts)
    if "error" in res:
        if "error" in res2 and oracle.out_of_registers(res2["error"]["description"]):
            if stats is not None:
                stats.discarded["reject:registers"] += 1
            return
        desc = res["error"]["description"]
        m = re.findall(r"^(\w+(?:Error|Exception)):", desc, re.M)
        why = (m[-1] if m else oracle.norm_error(desc)[:40]) + ("-in-library-constexpr" if case["in_lib"] or case.get("lib_funcs") else "")
        raise Violation("C12:valid-constexpr-program-rejected:" + why, {"sources": srcs, "error": desc[:500], "opts": opts})
    if "error" in res2:
        if stats is not None:
            stats.discarded["literal-twin-rejected:" + oracle.norm_error(res2["error"]["description"])] += 1
        return
    detail = {"sources": srcs, "opts": opts, "code": res["code"], "code_with_literals": res2["code"], "expected": [fmt_literal(v) for v in exp]}
    for i in range(len(case["funcs"])):
        if re.search(r"\bcx%d(end)?:" % i, res["code"]) or re.search(r"\bjal (cl\.)?cx%d\b" % i, res["code"]):
            raise Violation("C12:constexpr-function-emits-code", detail)
    if nlines(res["code"]) != nlines(res2["code"]):
        raise Violation("C12:instruction-count-differs-from-literal-twin", dict(detail, counts=[nlines(res["code"]), nlines(res2["code"])]))
    for es in (1, 2):
        env = compare.make_env(es, [0.0, 1.0, 2.0, 5.0, 1000.0, -3.0])
        ms = []
        for r in (res, res2):
            m = ic10vm.Machine(r["code"], env, tables.enum_tables(), max_steps=20000, max_effects=K)
            try:
                m.run()
            except ic10vm.VMError as e:
                raise Violation("C09:vmerror:" + e.kind, dict(detail, error=str(e)))
            ms.append(m)
        kind, d = compare.compare_vm_vm(ms[0], ms[1])
        if kind == "mismatch":
            raise Violation("C12:call-site-value-differs-from-python-evaluation", dict(detail, compare=d,
                            trace=compare.jsonable(ms[0].trace[:8]), trace_literals=compare.jsonable(ms[1].trace[:8])))
    if stats is not None:
        for c, v in zip(case["calls"], exp):
            info = next(i for i in (case["lib_infos"] if case.get("lib_funcs") and c.get("lib") else case["infos"]) if i["name"] == c["func"])
            stats.classes["position=%d" % c["pos"]] += 1
            if c.get("nested"):
                stats.classes["constexpr-call-nested-as-argument(non-scalar inner result)"] += 1
            stats.classes["result:" + type(v).__name__] += 1
            if (info["shape"]["branch"] or info["shape"]["loop"]) and c["nondefault"]:
                stats.nontrivial.add(sha([case["funcs"], c["text"]])[:16])
        if case["in_lib"]:
            stats.classes["library-constexpr"] += 1
        if case.get("lib_funcs"):
            stats.classes["same-names-in-main-and-library"] += 1
        stats.sample({"functions": case["funcs"][:1], "calls": [c["text"] for c in case["calls"]][:3], "expected": [fmt_literal(v) for v in exp][:3]}, limit=3)


FORBIDDEN_BODIES = [
    "def bad(a):\n    f = open\n    return a\n",
    "def bad(a):\n    return eval('a + 1')\n",
    "def bad(a):\n    exec('a = 2')\n    return a\n",
    "def bad(a):\n    s = 'open'\n    return a + len(s)\n",
    "def bad(a):\n    return a if a else open('x').read()\n",
]


def check_forbidden(case, stats=None):
    src = HDR + "@constexpr\n" + case["forbidden"] + "db.Setting = bad(1)\n"
    res = oracle.compile_case({"": src}, {})
    if stats is not None:
        stats.evaluations += 1
        stats.classes["forbidden-word-body"] += 1
    if "error" not in res:
        raise Violation("C12:open-eval-exec-not-rejected", {"source": src, "code": res.get("code")})
    if stats is not None:
        stats.nontrivial.add(sha(src)[:16])


def run_shard(ctx):
    if ctx.shard == 0:
        for b in FORBIDDEN_BODIES:
            c = {"forbidden": b}
            try:
                check_case(c, ctx.stats)
            except Violation as v:
                ctx.stats.violations.append({"signature": v.signature, "detail": v.detail, "case": c})
    hyp_search(ctx, cases(), lambda c: check_case(c, ctx.stats), ctx.scale(12, 60))


def replay(case):
    try:
        check_case(case, None)
    except Violation as v:
        return {"kind": "violation", "signature": v.signature, "detail": v.detail}
    return {"kind": "ok"}
