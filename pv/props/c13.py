"""C13 - library modules behave like the same code written in the main file (DESIGN section 13)."""
import re

from hypothesis import strategies as st

from .. import compare, ic10vm, oracle, repo, tables
from ..gen import programs
from ..runner import Violation, hyp_search, sha

ID = "C13"
LEVEL = "exploration"
RULE = (
    "Hypothesis-constructed programs split over the main file and 1-3 library modules (optional 'as' aliases, the "
    "same global and function names in several modules and in main, module-level initialisation, module functions "
    "calling each other, never-called library functions, 'if __name__ == \"__main__\":' blocks with effects), rendered "
    "(A) as modules and (B) as one file with every library-level name prefixed by the module name, x 4 option "
    "vectors; oracle: effect traces of A and B on the reference machine are equal and equal to the reference "
    "interpreter on A (separate globals per module); A with and without the __main__ blocks gives identical code; no "
    "instruction of a never-called library function is emitted (deleting it leaves the code unchanged). Non-trivial: "
    ">= 2 modules, a name collision, and a module global written by a module function and read by a later effect; "
    "distinct by SHA-1 of (sources, options)."
)
ASSUMPTIONS = [
    "imports stand at the top of the main file (module initialisation then precedes main code in both renderings)",
    "module globals are reached through module functions only (attribute reads of module globals are rejected by the transpiler)",
]
VECS = [{}, {"inline_functions": False}, {"use_push_pop_functions": True, "inline_functions": False}, {"remove_labels": True, "compact": True}]
MODNAMES = ["m1", "lib", "util", "solar", "m_2", "a"]
GNAMES = ["cnt", "acc", "state"]
FNAMES = ["bump", "getv", "work", "step"]
HDR = programs.HDR


def nshards(tier):
    return 16


@st.composite
def cases(draw):
    nmod = draw(st.integers(1, 3))
    mods = []
    names = list(MODNAMES)
    for i in range(nmod):
        n = names.pop(draw(st.integers(0, len(names) - 1)))
        alias = draw(st.sampled_from([None, None, "al" + str(i), "x" + n]))
        mods.append((n, alias))
    units = [("", None)] + mods
    model = []  # per unit: dict(globals=[(name, init)], funcs=[dict], unused=[...], mainblock=bool)
    marker = 0
    for ui, (uname, alias) in enumerate(units):
        bare = ui > 0 and draw(st.integers(0, 5)) == 0  # a library of module-level statements only (configuration file)
        ng = 0 if bare else draw(st.integers(0 if ui == 0 else 1, 2))
        gl = []
        for gi in range(ng):
            gl.append((GNAMES[gi], draw(st.sampled_from(["0", "1", "5", "d0.Setting", "d1.Setting + 1", "10"]))))
        funcs = []
        nf = 0 if bare else draw(st.integers(1, 3))
        for fi in range(nf):
            fname = FNAMES[fi]
            npar = draw(st.integers(0, 2))
            has_ret = draw(st.booleans())
            ps = [f"p{j}" for j in range(npar)]
            body = []
            used_g = [g for g, _ in gl if draw(st.booleans())]
            if used_g:
                body.append(("global", used_g))
            marker += 1
            for _ in range(draw(st.integers(1, 3))):
                k = draw(st.integers(0, 5))
                if k <= 1 and used_g:
                    g = used_g[draw(st.integers(0, len(used_g) - 1))]
                    rhs = draw(st.sampled_from([f"{g} + 1", f"{g} * 2", f"{g} + {ps[0]}" if ps else f"{g} - 3", f"{g} + d2.Setting"]))
                    body.append(("assign", g, rhs))
                elif k == 5 and draw(st.booleans()):
                    cond = draw(st.sampled_from(([ps[0] + " > 1"] if ps else []) + ([used_g[0] + " > 4"] if used_g else []) + ["d2.Setting > 3", "d3.Setting < 1"]))
                    val = (draw(st.sampled_from([g for g, _ in gl] + ps + [str(marker)])) + f" + {marker + 50}") if has_ret else None
                    body.append(("earlyret", cond, val))
                elif k == 2 and funcs:
                    c = funcs[draw(st.integers(0, len(funcs) - 1))]
                    args = ", ".join(draw(st.sampled_from(["1", "2", "d3.Setting", ps[0] + " + 1" if ps else "4"])) for _ in range(c["npar"]))
                    body.append(("call", c["name"], args, c["has_ret"]))
                else:
                    src = draw(st.sampled_from([g for g, _ in gl] + ps + [str(100 * marker)])) if (gl or ps) else str(100 * marker)
                    body.append(("write", f"d{marker % 6}.Setting", f"{src} + {marker}"))
            ret = None
            if has_ret:
                ret = draw(st.sampled_from([g for g, _ in gl] + ps + [str(marker)])) + f" + {marker}"
            funcs.append({"name": fname, "npar": npar, "has_ret": has_ret, "params": ps, "body": body, "ret": ret})
        unused = draw(st.booleans()) and ui > 0 and not bare
        init = []  # module-level statements with visible effects, executed once in import order
        if ui > 0:
            for _ in range(draw(st.integers(1 if bare else 0, 2))):
                marker += 1
                src = draw(st.sampled_from([g for g, _ in gl] + [str(100 * marker)] + ([] if bare and draw(st.booleans()) else ["d1.Setting"])))
                init.append((f"d{draw(st.integers(2, 4))}.Setting", f"{src} + {marker}"))
        mainblock = draw(st.booleans()) and ui > 0 and not bare
        model.append({"globals": gl, "funcs": funcs, "unused": unused, "mainblock": mainblock, "init": init})
    # functions of the main file call library functions (FX-D44)
    for f in model[0]["funcs"]:
        for _ in range(draw(st.integers(0, 2))):
            if len(units) > 1:
                ui = draw(st.integers(1, len(units) - 1))
                if not model[ui]["funcs"]:
                    continue
                c = model[ui]["funcs"][draw(st.integers(0, len(model[ui]["funcs"]) - 1))]
                args = ", ".join(draw(st.sampled_from(["1", "2", "d3.Setting", f["params"][0] + " + 1" if f["params"] else "4"])) for _ in range(c["npar"]))
                f["body"].insert(draw(st.integers(1 if f["body"] and f["body"][0][0] == "global" else 0, len(f["body"]))), ("libcall", ui, c["name"], args, c["has_ret"]))
    # main loop: calls into every unit
    calls = []
    for ui, (uname, alias) in enumerate(units):
        for f in model[ui]["funcs"]:
            for _ in range(draw(st.integers(0, 2))):
                args = ", ".join(draw(st.sampled_from(["1", "2", "3", "d4.Setting"])) for _ in range(f["npar"]))
                calls.append((ui, f["name"], args, f["has_ret"]))
    if not calls:
        f = model[0]["funcs"][0]
        calls.append((0, f["name"], ", ".join("1" for _ in range(f["npar"])), f["has_ret"]))
    order = draw(st.permutations(list(range(len(calls)))))
    calls = [calls[i] for i in order]
    # the order in which the files are handed over (the mapping's key order) is not the order in which the main file
    # imports them in half of the cases; the main file need not come first either
    file_order = list(draw(st.permutations(list(range(len(units)))))) if draw(st.booleans()) else None
    return {"units": [list(u) for u in units], "model": model, "calls": [list(c) for c in calls], "file_order": file_order,
            "opts": VECS[draw(st.integers(0, len(VECS) - 1))], "env_seeds": [draw(st.integers(0, 2**31 - 1))]}


def render_func(f, prefix, gprefix, callprefix, libname=None, merged=False):
    L = [f"def {prefix}{f['name']}({', '.join(f['params'])}):"]
    for st_ in f["body"]:
        if st_[0] == "global":
            L.append("    global " + ", ".join(gprefix + g for g in st_[1]))
        elif st_[0] == "assign":
            L.append(f"    {gprefix}{st_[1]} = {requal(st_[2], gprefix, f)}")
        elif st_[0] == "call":
            c = f"{callprefix}{st_[1]}({st_[2]})"
            L.append(f"    d5.Setting = {c}" if st_[3] else f"    {c}")
        elif st_[0] == "libcall":
            c = libname(st_[1], merged) + f"{st_[2]}({st_[3]})"
            L.append(f"    d5.Setting = {c}" if st_[4] else f"    {c}")
        elif st_[0] == "write":
            L.append(f"    {st_[1]} = {requal(st_[2], gprefix, f)}")
        elif st_[0] == "earlyret":
            L.append(f"    if {requal(st_[1], gprefix, f)}:")
            L.append("        return" + (f" {requal(st_[2], gprefix, f)}" if st_[2] else ""))
    if f["ret"]:
        L.append(f"    return {requal(f['ret'], gprefix, f)}")
    return L


def requal(expr, gprefix, f):
    if not gprefix:
        return expr
    return re.sub(r"\b(" + "|".join(GNAMES) + r")\b", lambda m: gprefix + m.group(1), expr)


def render(case, with_mainblocks=True, with_unused=True):
    """-> (A: dict of sources, B: merged single file)"""
    units, model = case["units"], case["model"]
    A = {}
    main = [HDR.rstrip("\n")]
    merged = [HDR.rstrip("\n")]
    for (uname, alias) in units[1:]:
        main.append(f"from library import {uname}" + (f" as {alias}" if alias else ""))
    for ui, (uname, alias) in enumerate(units):
        if ui == 0:
            continue
        m = model[ui]
        pre = (alias or uname) + "_"
        L = [HDR.rstrip("\n")]
        for g, init in m["globals"]:
            L.append(f"{g} = {init}")
            merged.append(f"{pre}{g} = {init}")
        for dst, rhs in m.get("init", []):
            L.append(f"{dst} = {rhs}")
            merged.append(f"{dst} = {requal(rhs, pre, None)}")
        for f in m["funcs"]:
            L += render_func(f, "", "", "")
            merged += render_func(f, pre, pre, pre)
        if m["unused"] and with_unused:
            L += ["def never_called(z):"]
            if m["globals"]:
                L += [f"    global {m['globals'][0][0]}", f"    {m['globals'][0][0]} = 555"]
            L += ["    d5.Mode = z + 77", "    return z"]
        if m["mainblock"] and with_mainblocks:
            L += ['if __name__ == "__main__":', "    d5.On = 4242"]
            for g, _ in m["globals"]:
                L.append(f"    {g} = 999")  # a self-test block that re-binds module-level names
            f0 = m["funcs"][0]
            L.append(f"    {f0['name']}({', '.join('9' for _ in range(f0['npar']))})")
        A[uname] = "\n".join(L) + "\n"
    m0 = model[0]
    for g, init in m0["globals"]:
        main.append(f"{g} = {init}")
        merged.append(f"{g} = {init}")
    libname = lambda ui, mrg: (units[ui][1] or units[ui][0]) + ("_" if mrg else ".")
    for f in m0["funcs"]:
        main += render_func(f, "", "", "", libname, False)
        merged += render_func(f, "", "", "", libname, True)
    main.append("while True:")
    merged.append("while True:")
    for ui, fname, args, has_ret in case["calls"]:
        uname, alias = units[ui]
        ca = (f"{alias or uname}." if ui else "") + f"{fname}({args})"
        cb = (f"{alias or uname}_" if ui else "") + f"{fname}({args})"
        main.append(f"    db.Setting = {ca}" if has_ret else f"    {ca}")
        merged.append(f"    db.Setting = {cb}" if has_ret else f"    {cb}")
    main.append("    yield_()")
    merged.append("    yield_()")
    A[""] = "\n".join(main) + "\n"
    ordered = {}
    for ui in (case.get("file_order") or range(len(units))):
        ordered[units[ui][0]] = A[units[ui][0]]
    return ordered, "\n".join(merged) + "\n"


GENLABEL = re.compile(r"\blb[a-z.]*\d+\b")


def canon(res):
    """result with generated labels renumbered in order of first appearance (an unused block may
    consume label numbers; that is not a contribution to the program)"""
    if "code" not in res:
        return oracle.public(res)
    seen = {}

    def ren(m):
        return seen.setdefault(m.group(0), "L%d" % len(seen))

    out = dict(oracle.public(res))
    out["code"] = GENLABEL.sub(ren, res["code"])
    out.pop("num_bytes", None)
    return out


def run_vm(code, es, K):
    m = ic10vm.Machine(code, compare.make_env(es, compare.DEFAULT_POOL), tables.enum_tables(), max_steps=40000, max_effects=K)
    m.run()
    return m


def check_case(case, stats=None, K=oracle.K_QUICK):
    opts = dict(case.get("opts") or {})
    if "A" in case:  # literal sources (regression witnesses)
        return check_literal(case, K)
    A, B = render(case)
    ra = oracle.compile_case(A, opts)
    rb = oracle.compile_case({"": B}, opts)
    if stats is not None:
        stats.evaluations += 1
    if "error" in ra or "error" in rb:
        ea = ra.get("error", {}).get("description", "")
        eb = rb.get("error", {}).get("description", "")
        if ("error" in ra) != ("error" in rb) and not oracle.out_of_registers(ea + eb):
            raise Violation("C13:split-changes-acceptance:" + oracle.error_class(ea or eb) + d44_suffix(A),
                            {"modules": A, "merged": B, "error_modules": ea[:300], "error_merged": eb[:300], "opts": opts})
        if stats is not None:
            stats.discarded["reject:" + ("registers" if oracle.out_of_registers(ea + eb) else oracle.norm_error(ea or eb))] += 1
        return
    detail = {"modules": A, "merged": B, "opts": opts, "code_modules": ra["code"], "code_merged": rb["code"]}
    # (3) __main__ blocks contribute nothing; (4) never-called functions contribute no instructions
    A2, _ = render(case, with_mainblocks=False)
    r2 = oracle.compile_case(A2, opts)
    if canon(r2) != canon(ra):
        raise Violation("C13:library-main-block-changes-output", dict(detail, code_without_blocks=r2.get("code")))
    A3, _ = render(case, with_unused=False)
    r3 = oracle.compile_case(A3, opts)
    if "error" in r3 or canon(r3) != canon(ra):
        raise Violation("C13:never-called-library-function-changes-output", dict(detail, code_without_unused=r3.get("code")))
    if "never.called" in ra["code"] or "d5 Mode" in ra["code"]:
        raise Violation("C13:never-called-library-function-emitted", detail)
    for es in case["env_seeds"]:
        try:
            ma, mb = run_vm(ra["code"], es, K), run_vm(rb["code"], es, K)
        except ic10vm.VMError as e:
            sig, extra = oracle.attribute(ra, es, compare.DEFAULT_POOL, 40000, K)
            raise Violation(sig or "C09:vmerror:" + e.kind, dict(detail, error=str(e)))
        kind, d = compare.compare_vm_vm(ma, mb)
        if kind == "mismatch":
            sig = None
            for r in (ra, rb):
                sig, extra = oracle.attribute(r, es, compare.DEFAULT_POOL, 40000, K)
                if sig:
                    break
            raise Violation(sig or "C13:modules-behave-differently-from-merged-file:" + d["what"],
                            dict(detail, compare=d, trace_modules=compare.jsonable(ma.trace[:10]), trace_merged=compare.jsonable(mb.trace[:10])))
        r = oracle.diff_run(A, opts, es, compare.DEFAULT_POOL, K, res=ra)
        if r["kind"] in ("mismatch", "vmerror"):
            sig = r.get("root") or ("C13:modules-differ-from-source-semantics:" + (r["detail"]["what"] if r["kind"] == "mismatch" else r["vmkind"]))
            raise Violation(sig, dict(detail, compare=r.get("detail"), src_trace=compare.jsonable(r["it"].trace[:10]),
                                      vm_trace=compare.jsonable(r["m"].trace[:10])))
        if stats is not None and r["kind"] in ("unsupported", "srcerror"):
            stats.discarded[r["kind"] + ":" + r.get("why", "")[:30]] += 1
    if stats is not None:
        units, model = case["units"], case["model"]
        nmod = len(units) - 1
        gnames = [g for m in model for g, _ in m["globals"]]
        fnames = [f["name"] for m in model for f in m["funcs"]]
        collision = len(set(gnames)) < len(gnames) or len(set(fnames)) < len(fnames)
        gw = any(st_[0] == "assign" for m in model[1:] for f in m["funcs"] for st_ in f["body"])
        stats.classes["modules=%d" % nmod] += 1
        if collision:
            stats.classes["name-collision"] += 1
        if any(a for _, a in units[1:]):
            stats.classes["alias"] += 1
        if any(m["mainblock"] for m in model):
            stats.classes["library-main-block"] += 1
        if any(m["unused"] for m in model):
            stats.classes["never-called-function"] += 1
        if any(m.get("init") for m in model):
            stats.classes["module-level-effects"] += 1
        if sum(1 for m in model if m.get("init")) >= 2:
            stats.classes["two-modules-with-module-level-effects"] += 1
        if any(st_[0] == "earlyret" for m in model[1:] for f in m["funcs"] for st_ in f["body"]):
            stats.classes["library-early-return"] += 1
        called = {c[0] for c in case["calls"]}
        if any(ui not in called and model[ui].get("init") for ui in range(1, len(units))):
            stats.classes["module-imported-for-its-module-level-code-only"] += 1
        if any(st_[0] == "libcall" for f in model[0]["funcs"] for st_ in f["body"]):
            stats.classes["library-call-inside-a-main-file-function"] += 1
        if any(not m["funcs"] for m in model[1:]):
            stats.classes["library-of-module-level-statements-only"] += 1
        if nmod >= 2 and collision and gw:
            stats.nontrivial.add(sha([A, opts])[:16])
            stats.sample({"modules": A, "options": opts}, limit=2)


def d44_suffix(A):
    """shape of open finding F-D44: a library function called from inside a function of the main file"""
    import ast

    try:
        tree = ast.parse(A[""])
    except SyntaxError:
        return ""
    mods = set()
    for n in ast.walk(tree):
        if isinstance(n, ast.ImportFrom) and n.module == "library":
            mods.update(a.asname or a.name for a in n.names)
    for f in ast.walk(tree):
        if isinstance(f, ast.FunctionDef):
            for c in ast.walk(f):
                if isinstance(c, ast.Call) and isinstance(c.func, ast.Attribute) and isinstance(c.func.value, ast.Name) and c.func.value.id in mods:
                    return ":D44-library-call-inside-a-function-of-the-main-file"
    return ""


def check_literal(case, K):
    """modules A and merged file B given literally: traces must agree and A must agree with the interpreter"""
    opts = dict(case.get("opts") or {})
    A, B = case["A"], case["B"]
    ra, rb = oracle.compile_case(A, opts), oracle.compile_case({"": B}, opts)
    if "error" in ra or "error" in rb:
        e = (ra.get("error") or rb.get("error"))["description"]
        raise Violation("C13:split-changes-acceptance:" + oracle.error_class(e) + d44_suffix(A), {"a": oracle.public(ra), "b": oracle.public(rb)})
    for es in case.get("env_seeds", [1, 2]):
        ma, mb = run_vm(ra["code"], es, K), run_vm(rb["code"], es, K)
        kind, d = compare.compare_vm_vm(ma, mb)
        if kind == "mismatch":
            raise Violation("C13:modules-behave-differently-from-merged-file:" + d["what"], {"compare": d, "code_modules": ra["code"], "code_merged": rb["code"]})
        r = oracle.diff_run(A, opts, es, compare.DEFAULT_POOL, K, res=ra)
        if r["kind"] in ("mismatch", "vmerror"):
            raise Violation("C13:modules-differ-from-source-semantics", {"compare": r.get("detail"), "code_modules": ra["code"]})


def run_shard(ctx):
    K = ctx.scale(oracle.K_QUICK, 100)
    hyp_search(ctx, cases(), lambda c: check_case(c, ctx.stats, K), ctx.scale(28, 600))


def replay(case):
    try:
        check_case(case, None, case.get("K", oracle.K_QUICK))
    except Violation as v:
        return {"kind": "violation", "signature": v.signature, "detail": v.detail}
    return {"kind": "ok"}
