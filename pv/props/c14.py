"""C14 - the compile daemon answers every request with exactly one line (DESIGN section 14)."""
import base64
import glob
import json
import os
import select
import subprocess
import sys
import time

from hypothesis import strategies as st

from .. import repo
from ..gen import programs
from ..runner import Violation, hyp_search, sha
from .c11 import norm

ID = "C14"
LEVEL = "exploration"
STUCK_S = 400  # a single case may legitimately take this long (seconds) before the runner calls it stuck
WORKERS = 4
RULE = (
    "Hypothesis-generated sequences of 1-30 input lines over the classes: valid compile request (unique numeric marker "
    "in the source so the answer identifies its request), request with library modules, each option key, unknown "
    "option key, options null/list, code missing / string / list / dict without '' / non-string source, unknown or "
    "missing action, JSON list/number/string/null, base64 of invalid JSON, base64 of invalid UTF-8, invalid base64, "
    "erroring sources, sources whose constexpr prints, very long lines, surrounding blanks, empty and blank-only lines "
    "(no answer), EXIT in the middle or absent (EOF); the real daemon process is driven in batch mode (whole script "
    "on stdin) and in lock-step mode (write a line, read a line). Oracle (model = list of non-blank lines before "
    "EXIT): stdout has exactly that many lines and nothing else, line k is base64 of a JSON object, for a valid "
    "request it equals compile_code of that request, for a faulty one it is an object with an 'error' entry; the "
    "process exits 0 after EXIT/EOF and has no child left. Non-trivial: >= 1 valid request answered after >= 1 faulty "
    "line; distinct by SHA-1 of the line sequence."
)
ASSUMPTIONS = [
    "input lines contain no CR/LF and are valid UTF-8 text (the client sends base64; raw non-UTF-8 stdin depends on the locale)",
    "stderr is unconstrained",
    "expected results are computed in the checker's process with the same source and options",
]
HDR = programs.HDR


def nshards(tier):
    return 4 if tier == "quick" else 16


def b64(obj):
    return base64.b64encode(json.dumps(obj).encode()).decode()


def realise(spec):
    """line spec -> (text of the line, expectation)   expectation: None (no answer), 'error', or ('result', srcs, opts)"""
    k = spec["k"]
    m = spec.get("marker", 0)
    src = HDR + f"def f(a):\n    db.Setting = a + {m}\nwhile True:\n    f(1)\n    f(d0.Setting)\n    yield_()\n"
    if k == "valid":
        req = {"action": "compile", "code": {"": src}, "options": spec.get("options", {})}
        return b64(req), ("result", {"": src}, spec.get("options", {}))
    if k == "valid-no-options":
        return b64({"action": "compile", "code": {"": src}}), ("result", {"": src}, {})
    if k == "library":
        main = HDR + f"from library import lib\nlib.g({m})\n"
        lib = HDR + "def g(a):\n    db.Setting = a\n"
        return b64({"action": "compile", "code": {"": main, "lib": lib}, "options": {}}), ("result", {"": main, "lib": lib}, {})
    if k == "source-error":
        bad = HDR + f"db.Setting = undefined_{m}\n"
        return b64({"action": "compile", "code": {"": bad}, "options": {}}), ("result", {"": bad}, {})
    if k == "syntax-error":
        bad = HDR + f"db.Setting = ({m}\n"
        return b64({"action": "compile", "code": {"": bad}, "options": {}}), ("result", {"": bad}, {})
    if k == "constexpr-prints":
        s = HDR + f"@constexpr\ndef k(a):\n    print('noise {m}')\n    return a\ndb.Setting = k({m})\n"
        return b64({"action": "compile", "code": {"": s}, "options": {}}), "object"
    if k == "constexpr-ok":
        s = HDR + f"@constexpr\ndef k(a):\n    return a * 2\ndb.Setting = k({m})\n"
        return b64({"action": "compile", "code": {"": s}, "options": {}}), "object"
    if k == "unknown-option":
        return b64({"action": "compile", "code": {"": src}, "options": {"no_such_option": True}}), "error"
    if k == "options-null":
        return b64({"action": "compile", "code": {"": src}, "options": None}), "error"
    if k == "options-list":
        return b64({"action": "compile", "code": {"": src}, "options": [1]}), "error"
    if k == "code-missing":
        return b64({"action": "compile", "options": {}}), "error"
    if k == "code-string":
        return b64({"action": "compile", "code": src, "options": {}}), "error"
    if k == "code-list":
        return b64({"action": "compile", "code": [src], "options": {}}), "error"
    if k == "code-no-main":
        return b64({"action": "compile", "code": {"lib": src}, "options": {}}), "error"
    if k == "code-non-string":
        return b64({"action": "compile", "code": {"": m}, "options": {}}), "error"
    if k == "action-unknown":
        return b64({"action": "format", "code": {"": src}}), "error"
    if k == "action-missing":
        return b64({"code": {"": src}}), "error"
    if k == "json-other":
        return b64(spec.get("value", [1, 2])), "error"
    if k == "b64-bad-json":
        return base64.b64encode(b'{"action": "compile", ').decode(), "error"
    if k == "b64-bad-utf8":
        return base64.b64encode(b"\xff\xfe{}\x80").decode(), "error"
    if k == "garbage":
        return spec.get("text", "!!!not base64!!!"), "error"
    if k == "long":
        return b64({"action": "compile", "code": {"": src + "# " + "x" * spec.get("n", 50000) + "\n"}, "options": {}}), "object"
    if k == "padded":
        req = {"action": "compile", "code": {"": src}, "options": {}}
        return "  " + b64(req) + " \t", ("result", {"": src}, {})
    if k == "blank":
        return spec.get("text", ""), None
    if k == "exit":
        return "EXIT", "exit"
    raise ValueError(k)


def expected_result(srcs, opts):
    comp = repo.load()
    r = comp.compile_code(dict(srcs), comp.CompileOptions(**opts))
    return norm(r)


def daemon():
    env = dict(os.environ)
    env.pop("PYTRAPIC_VERIF", None)
    env["PYTHONPATH"] = repo.SRC
    env["PYTHONIOENCODING"] = "utf-8"
    env["PYTHONHASHSEED"] = "0"
    return subprocess.Popen([sys.executable, "-m", "stationeers_pytrapic.mod_daemon"], stdin=subprocess.PIPE, stdout=subprocess.PIPE,
                            stderr=subprocess.DEVNULL, env=env, cwd="/tmp")


def kids(pid):
    out = []
    for f in glob.glob(f"/proc/{pid}/task/*/children"):
        try:
            out += open(f).read().split()
        except OSError:
            pass
    return out


def read_line(p, cap):
    """one line from the daemon's stdout or None after `cap` seconds"""
    fd = p.stdout.fileno()
    buf = p._pv_buf if hasattr(p, "_pv_buf") else b""
    t0 = time.time()
    while b"\n" not in buf:
        left = cap - (time.time() - t0)
        if left <= 0:
            p._pv_buf = buf
            return None
        r, _, _ = select.select([fd], [], [], left)
        if not r:
            continue
        chunk = os.read(fd, 65536)
        if not chunk:
            p._pv_buf = buf
            return None
        buf += chunk
    line, _, rest = buf.partition(b"\n")
    p._pv_buf = rest
    return line


def judge(k, spec, exp, raw, detail):
    try:
        text = raw.decode("ascii")
        obj = json.loads(base64.b64decode(text, validate=True).decode("utf-8"))
    except Exception as e:
        raise Violation("C14:answer-is-not-base64-json", dict(detail, index=k, answer=raw[:120].decode("latin-1"), error=repr(e)[:100]))
    if not isinstance(obj, dict):
        raise Violation("C14:answer-is-not-a-json-object", dict(detail, index=k, answer=repr(obj)[:200]))
    if exp == "error":
        if "error" not in obj:
            raise Violation("C14:faulty-request-not-answered-with-an-error-object", dict(detail, index=k, line=spec, answer=repr(obj)[:300]))
    elif exp == "object":
        if "error" not in obj and "code" not in obj:
            raise Violation("C14:answer-is-neither-result-nor-error", dict(detail, index=k, line=spec, answer=repr(obj)[:300]))
    elif isinstance(exp, tuple):
        want = expected_result(exp[1], exp[2])
        if norm(obj) != want:
            raise Violation("C14:answer-differs-from-compile_code-of-that-request", dict(detail, index=k, line=spec, answer=norm(obj), expected=want))


def check_case(case, stats=None):
    lines = [realise(s) for s in case["lines"]]
    model = []
    for spec, (text, exp) in zip(case["lines"], lines):
        if exp == "exit":
            break
        if text.strip() == "":
            continue
        model.append((spec, exp))
    detail = {"mode": case["mode"], "kinds": [s["k"] for s in case["lines"]]}
    p = daemon()
    try:
        if case["mode"] == "batch":
            data = "".join(t + "\n" for t, _ in lines)
            try:
                out, _ = p.communicate(data.encode("utf-8"), timeout=120 + 20 * len(lines))
            except subprocess.TimeoutExpired:
                p.kill()
                raise Violation("C14:daemon-does-not-finish-the-batch", detail)
            answers = out.split(b"\n")
            if answers and answers[-1] == b"":
                answers.pop()
            if len(answers) != len(model):
                raise Violation("C14:number-of-answer-lines-differs-from-number-of-requests",
                                dict(detail, answers=len(answers), requests=len(model), first_bytes=out[:200].decode("latin-1")))
            for k, ((spec, exp), raw) in enumerate(zip(model, answers)):
                judge(k, spec, exp, raw, detail)
            if p.returncode != 0:
                raise Violation("C14:daemon-exit-status", dict(detail, status=p.returncode))
        else:
            k = 0
            exited = False
            for spec, (text, exp) in zip(case["lines"], lines):
                p.stdin.write((text + "\n").encode("utf-8"))
                p.stdin.flush()
                if exp == "exit":
                    exited = True
                    break
                if text.strip() == "":
                    continue
                raw = read_line(p, 90)
                if raw is None:
                    raise Violation("C14:no-answer-to-a-request", dict(detail, index=k, line=spec, daemon_alive=p.poll() is None))
                judge(k, spec, exp, raw, detail)
                k += 1
            if kids(p.pid):
                time.sleep(0.3)
                if kids(p.pid):
                    raise Violation("C14:daemon-leaves-a-child-process", detail)
            if not exited:
                p.stdin.close()
            extra = read_line(p, 20)
            if extra is not None and extra != b"":
                raise Violation("C14:unrequested-output-on-stdout", dict(detail, extra=extra[:200].decode("latin-1")))
            try:
                rc = p.wait(timeout=30)
            except subprocess.TimeoutExpired:
                raise Violation("C14:daemon-does-not-exit", dict(detail, after="EXIT" if exited else "EOF"))
            if rc != 0:
                raise Violation("C14:daemon-exit-status", dict(detail, status=rc))
    finally:
        if p.poll() is None:
            p.kill()
        for f in (p.stdin, p.stdout):
            try:
                f.close()
            except Exception:
                pass
    if stats is not None:
        stats.evaluations += 1
        stats.classes["mode:" + case["mode"]] += 1
        stats.classes["lines"] += len(case["lines"])
        stats.classes["answers-checked"] += len(model)
        for s in case["lines"]:
            stats.classes["k:" + s["k"]] += 1
        faulty_seen, nt = False, False
        for spec, exp in model:
            if exp == "error":
                faulty_seen = True
            elif isinstance(exp, tuple) and faulty_seen:
                nt = True
        if nt:
            stats.nontrivial.add(sha(case["lines"])[:16])
            stats.sample({"mode": case["mode"], "line_kinds": [s["k"] for s in case["lines"]]}, limit=3)


KINDS = ["valid", "valid", "valid", "valid-no-options", "library", "source-error", "syntax-error", "constexpr-prints", "constexpr-ok", "unknown-option",
         "options-null", "options-list", "code-missing", "code-string", "code-list", "code-no-main", "code-non-string", "action-unknown",
         "action-missing", "json-other", "b64-bad-json", "b64-bad-utf8", "garbage", "long", "padded", "blank", "blank"]


@st.composite
def line_spec(draw, i):
    k = KINDS[draw(st.integers(0, len(KINDS) - 1))]
    s = {"k": k, "marker": 1000 + i * 7 + draw(st.integers(0, 5))}
    if k == "valid":
        s["options"] = {n: draw(st.booleans()) for n in repo.OPTION_NAMES if n != "tail_call_optimization" and draw(st.integers(0, 3)) == 0}
    elif k == "json-other":
        s["value"] = draw(st.sampled_from([[1, 2], 5, "text", None, True, 1.5, []]))
    elif k == "garbage":
        s["text"] = draw(st.one_of(st.sampled_from(["!!!not base64!!!", "abc", "====", "AAAA=A", "{\"action\": \"compile\"}", "EXIT now", "exit", "Ünïcode ☃", "\x0bx\x0c"]),
                                   st.text(alphabet=st.characters(blacklist_characters="\r\n", blacklist_categories=["Cs"]), min_size=1, max_size=40).filter(lambda t: t.strip() not in ("", "EXIT"))))
    elif k == "blank":
        s["text"] = draw(st.sampled_from(["", " ", "\t", "   \t "]))
    elif k == "long":
        s["n"] = draw(st.sampled_from([5000, 70000, 300000]))
    return s


@st.composite
def cases(draw):
    n = draw(st.integers(1, 30))
    lines = [draw(line_spec(i)) for i in range(n)]
    e = draw(st.integers(0, 3))
    if e == 0:
        lines.insert(draw(st.integers(0, len(lines))), {"k": "exit"})
    elif e == 1:
        lines.append({"k": "exit"})
    return {"lines": lines, "mode": draw(st.sampled_from(["batch", "lockstep"]))}


def run_shard(ctx):
    hyp_search(ctx, cases(), lambda c: check_case(c, ctx.stats), ctx.scale(4, 20), shrink_calls=25)


def replay(case):
    try:
        check_case(case, None)
    except Violation as v:
        return {"kind": "violation", "signature": v.signature, "detail": v.detail}
    return {"kind": "ok"}
