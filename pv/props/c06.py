"""C06 - calls return to their call site; arguments and results arrive intact (DESIGN section 6)."""
import ast

from hypothesis import strategies as st

from .. import compare, diag, ic10vm, oracle, repo, srcinterp, tables
from ..gen import callgraph
from ..gen import options as gopt
from ..runner import Violation, hyp_search, sha
from .c02 import tco_safe

ID = "C06"
LEVEL = "exploration"
RULE = (
    "Hypothesis-constructed acyclic call graphs (depth <= 4, arities 0..4, value/bare/early returns inside if and "
    "loops, return of a call result, calls as arguments, argument expressions asymmetric in the parameters) x "
    "{inline, tail-call, push/pop, remove_labels} vectors; oracle: shadow return stack on the reference machine - "
    "every 'j ra' must land on the instruction after the call being served, with sp equal to its value at the call "
    "minus the pushed arguments plus one returned value (push/pop) or exactly equal (fixed slots) - and the effect "
    "trace must equal the reference interpreter's (arguments in order, results intact). Directly recursive programs "
    "must be rejected with an error. Non-trivial: a return executed at dynamic depth >= 2 and an early return taken; "
    "distinct by SHA-1 of (source, options, environment seed)."
)
ASSUMPTIONS = [
    "callee identity and arity of a call target come from the PYTRAPIC_VERIF hook's emitted-function tags",
    "functions return a value on every path or on none (open finding F-D25 otherwise); list-loop bodies are call-free (F-D20)",
    "tail_call_optimization only on programs satisfying the F-D11 carve-out (see C02)",
]
VECS = [
    {}, {"inline_functions": False}, {"use_push_pop_functions": True},
    {"inline_functions": False, "use_push_pop_functions": True},
    {"inline_functions": False, "remove_labels": True},
    {"use_push_pop_functions": True, "remove_labels": True, "compact": True},
    {"tail_call_optimization": True}, {"tail_call_optimization": True, "inline_functions": False},
    {"tail_call_optimization": True, "use_push_pop_functions": True, "inline_functions": False},
    {"tail_call_optimization": True, "use_push_pop_functions": True},
]


def nshards(tier):
    return 16


def func_table(src):
    tree = ast.parse(src)
    out = {}
    for n in ast.walk(tree):
        if isinstance(n, ast.FunctionDef):
            out[n.name] = (len(n.args.args), any(isinstance(x, ast.Return) and x.value is not None for x in ast.walk(n)))
    return out


def check_returns(m, recmap, ftab, pushpop):
    """-> (signature, detail) or None"""
    br = diag.bad_returns(m, recmap)
    if br:
        return br[0][0], {"event": list(br[0][1])}
    for ev in m.ret_events:
        pc, tgt, exp, sp, sp0, cpc, depth, ctgt, skipped = ev
        # callee: region of the call target (internal subroutines such as list-loop bodies stay in the
        # caller's region and take no arguments)
        creg = (recmap.get(ctgt) or {}).get("region")
        caller_reg = (recmap.get(cpc) or {}).get("region")
        nargs, has_ret = 0, False
        if creg and creg != caller_reg or (creg and creg == caller_reg and _is_entry(recmap, ctgt, creg)):
            name = creg.split(".")[-1]
            if name in ftab:
                nargs, has_ret = ftab[name]
        want = sp0 - nargs + (1 if has_ret else 0) if pushpop else sp0
        if sp != want:
            return "C06:sp-unbalanced-on-return", {"event": list(ev), "expected_sp": want, "callee": creg, "pushpop": pushpop}
    return None


def _is_entry(recmap, line, region):
    """line is the first instruction of its emitted function"""
    prev = [i for i, r in recmap.items() if i < line and r.get("region") == region]
    return not prev


def check_case(case, stats=None, K=oracle.K_QUICK):
    srcs = case["src"]
    main = srcs[""]
    opts = dict(case.get("opts") or {})
    if opts.get("tail_call_optimization") and not tco_safe(main) and not case.get("force_tco"):
        opts["tail_call_optimization"] = False
        if stats is not None:
            stats.excluded["tail-call-bit-forced-off(F-D11)"] += 1
    res = oracle.compile_case(srcs, opts)
    if case.get("expect_error"):
        if stats is not None:
            stats.evaluations += 1
            stats.classes["recursive-program"] += 1
        if "error" not in res:
            raise Violation("C06:recursion-not-rejected", {"opts": opts, "code": res.get("code")})
        if stats is not None:
            stats.nontrivial.add(sha([srcs, opts])[:16])
        return
    if "error" in res:
        if stats is not None:
            stats.evaluations += 1
            stats.discarded["reject:" + ("registers" if oracle.out_of_registers(res["error"]["description"]) else oracle.norm_error(res["error"]["description"]))] += 1
        return
    recmap = diag.align(res["code"], res["_verif"]["instructions"])
    ftab = {}
    for text in srcs.values():
        ftab.update(func_table(text))
    # shapes of open findings give their witnesses a narrow signature (generated programs do not have them)
    suffix = oracle.shape_suffix(srcs)
    if opts.get("tail_call_optimization") and not tco_safe(main):
        suffix += ":tail-call-with-other-call-or-return"
    for es in case["env_seeds"]:
        r = oracle.diff_run(srcs, opts, es, case["pool"], K, res=res)
        if stats is not None:
            stats.evaluations += 1
        k = r["kind"]
        if k in ("unsupported", "srcerror", "nan", "inconclusive"):
            if stats is not None:
                stats.discarded[k] += 1
            if k in ("unsupported", "srcerror"):
                return
            continue
        detail = {"opts": opts, "env_seed": es, "code": res["code"]}
        m = r["m"]
        bad = check_returns(m, recmap, ftab, bool(opts.get("use_push_pop_functions")))
        if bad:
            raise Violation(bad[0] + suffix, dict(detail, **bad[1]))
        if k in ("mismatch", "vmerror"):
            sig = r.get("root")
            if not sig:
                sig = ("C06:arguments-or-results-differ:" + r["detail"]["what"]) if k == "mismatch" else "C09:vmerror:" + r["vmkind"]
            if sig.startswith("C06:"):
                sig += suffix
            raise Violation(sig, dict(detail, compare=r.get("detail"), root=r.get("root_detail"), error=r.get("error"),
                                      src_trace=compare.jsonable(r["it"].trace[:10]), vm_trace=compare.jsonable(m.trace[:10])))
        it = r["it"]
        if stats is not None:
            if m.max_depth >= 2:
                stats.classes["vm-call-depth>=2"] += 1
            if m.max_depth >= 3:
                stats.classes["vm-call-depth>=3"] += 1
            if it.early_returns:
                stats.classes["early-return-taken"] += 1
            if m.calls_executed:
                stats.classes["calls-executed"] += 1
            if m.max_depth >= 2 and it.early_returns:
                stats.nontrivial.add(sha([srcs, opts, es])[:16])
                stats.sample({"source": main, "options": opts, "env_seed": es, "returns_checked": len(m.ret_events),
                              "max_depth": m.max_depth}, limit=3)
    if stats is not None:
        for f in case.get("features", []):
            stats.classes["f:" + f] += 1
        stats.classes["opts:" + ",".join(sorted(k for k, v in opts.items() if v is not False)) or "default"] += 1


RECURSIVE = [
    "def f(a):\n    db.Setting = a\n    f(a + 1)\nf(1)\n",
    "def f(a):\n    if a > 3:\n        return a\n    return f(a + 1)\ndb.Setting = f(d0.Setting)\n",
    "def g(b):\n    db.Setting = b\ndef f(a):\n    g(a)\n    f(a - 1)\nwhile True:\n    f(2)\n    f(3)\n    yield_()\n",
]


@st.composite
def cases(draw):
    if draw(st.integers(0, 39)) == 0:
        src = callgraph.HDR + RECURSIVE[draw(st.integers(0, len(RECURSIVE) - 1))]
        return {"src": {"": src}, "env_seeds": [1], "pool": [0.0, 1.0], "opts": VECS[draw(st.integers(0, 5))], "expect_error": True}
    if draw(st.integers(0, 5)) == 0:
        c = draw(callgraph.tailcall_cases())
        c["opts"] = VECS[draw(st.integers(6, len(VECS) - 1))]
        return c
    if draw(st.integers(0, 3)) == 0:
        # deep chains of real calls (3-5 levels, never inlined): "at any nesting depth"
        c = draw(callgraph.chain_cases())
        c["opts"] = VECS[draw(st.integers(0, 5))]
        return c
    c = draw(callgraph.callgraph_cases())
    # vectors that keep functions out of line are drawn twice as often (deeper dynamic call stacks)
    c["opts"] = VECS[draw(st.sampled_from([0, 1, 1, 2, 3, 3, 4, 4, 5, 6, 7, 7, 8, 8, 9]))]
    return c


def run_shard(ctx):
    K = ctx.scale(oracle.K_QUICK, 100)
    hyp_search(ctx, cases(), lambda c: check_case(c, ctx.stats, K), ctx.scale(90, 1200))


def replay(case):
    try:
        check_case(case, None, case.get("K", oracle.K_QUICK))
    except Violation as v:
        return {"kind": "violation", "signature": v.signature, "detail": v.detail}
    return {"kind": "ok"}
