"""C01 - compiled IC10 behaves like the source (DESIGN section 1)."""
import glob
import os

from .. import compare, oracle, repo
from ..gen import programs
from ..runner import Violation, hyp_search, sha

ID = "C01"
LEVEL = "exploration"
RULE = (
    "Hypothesis-constructed programs of the dialect (expressions, if/elif/else, while, for-range, for-over-list, "
    "break/continue, functions with arguments/returns/early returns, global, device/batch/named-batch/slot/stack "
    "access, constant lists with dynamic index, conditional expressions, intrinsics), each run under 3 generated "
    "device environments; oracle: effect trace of the reference source interpreter == effect trace of the reference "
    "IC10 machine on the emitted code (DESIGN 0.3). Non-trivial: compiled, >= 3 effects compared and (a loop ran >= 2 "
    "iterations, or a non-inlined call executed, or the effect shape differs between environments, i.e. a branch "
    "depended on a device read); distinct by SHA-1 of (source, environment seed). The repository's own cases/examples "
    "that the interpreter models are replayed first."
)
ASSUMPTIONS = [
    "the reference IC10 machine (pv/ic10vm.py, pv/alu.py) is my reading of IC10 semantics; numbers are IEEE doubles",
    "device reads are a pure function of (read key, number of effects so far, environment seed): reads are not effects",
    "cases in which the source interpreter compares a NaN are discarded (negated-branch lowering, D22)",
    "open known findings D1 D3 D5 D20 D21 D25 D29 are excluded from generation by construction (witnesses kept)",
]


def nshards(tier):
    return 16


def signature(r, srcs):
    if r.get("root"):
        return r["root"]
    shapes = sorted(set().union(*[oracle.source_shapes(t) for t in srcs.values()]))
    if r["kind"] == "vmerror":
        return "C09:vmerror:" + r["vmkind"] + "".join(":" + s for s in shapes)
    what = r["detail"]["what"]
    return "C01:mismatch:" + ("effect" if what == "effect" else what) + "".join(":" + s for s in shapes)


def check_case(case, stats=None, K=oracle.K_QUICK, opts=None):
    srcs = case["src"]
    opts = dict(opts or case.get("opts") or {})
    res = oracle.compile_case(srcs, opts)
    shapes = set()
    any_nt = False
    for es in case["env_seeds"]:
        r = oracle.diff_run(srcs, opts, es, case["pool"], K, res=res)
        k = r["kind"]
        if stats is not None:
            stats.evaluations += 1
            if k in ("reject", "unsupported", "srcerror", "nan", "inconclusive"):
                why = k
                if k == "reject":
                    why = "reject:" + ("registers" if oracle.out_of_registers(r["error"]) else "other")
                    if not oracle.out_of_registers(r["error"]):
                        stats.notes["reject:" + oracle.norm_error(r["error"])] += 1
                elif k == "unsupported":
                    why = "unsupported:" + r["why"][:40]
                stats.discarded[why] += 1
        if k in ("reject", "unsupported", "srcerror"):
            return
        if k in ("mismatch", "vmerror"):
            sig = signature(r, srcs)
            detail = {"env_seed": es, "code": res.get("code")}
            detail.update({kk: r[kk] for kk in ("detail", "root_detail", "error") if kk in r})
            if "it" in r:
                detail["src_trace"] = compare.jsonable(r["it"].trace[:12])
                detail["vm_trace"] = compare.jsonable(r["m"].trace[:12])
            raise Violation(sig, detail)
        if k != "ok":
            continue
        it, m = r["it"], r["m"]
        shapes.add(compare.trace_shape(it.trace))
        if stats is not None and len(it.trace) >= 3 and (it.loop_iters >= 2 or m.calls_executed > 0 or len(shapes) > 1):
            any_nt = True
            stats.nontrivial.add(sha([srcs, es])[:16])
            if m.calls_executed:
                stats.classes["nt:non-inlined-call-executed"] += 1
            if it.loop_iters >= 2:
                stats.classes["nt:loop>=2"] += 1
            if it.max_call_depth >= 2:
                stats.classes["nt:call-depth>=2"] += 1
            if it.early_returns:
                stats.classes["nt:early-return-taken"] += 1
    if stats is not None:
        if len(shapes) > 1:
            stats.classes["shape-differs-between-envs"] += 1
        for f in case.get("features", []):
            stats.classes["f:" + f] += 1
        if any_nt:
            stats.sample({"source": srcs[""], "env_seeds": case["env_seeds"], "first_effects": compare.jsonable(r["it"].trace[:4]) if "it" in r else None}, limit=3)


def corpus_cases():
    out = []
    base = os.path.join(repo.REPO, "test", "cases", "*.py")
    ex = os.path.join(repo.SRC, "stationeers_pytrapic", "examples", "*.py")
    for f in sorted(glob.glob(base)) + sorted(glob.glob(ex)):
        if f.endswith("__init__.py"):
            continue
        out.append((os.path.basename(f), open(f, encoding="utf-8").read()))
    return out


def run_corpus(ctx, K):
    """the repository's own programs (only shard 0): those the interpreter models must agree, except
    through open known findings"""
    for name, src in corpus_cases():
        case = {"src": {"": src}, "env_seeds": [11, 12, 13], "pool": compare.DEFAULT_POOL, "features": ["corpus"]}
        try:
            check_case(case, ctx.stats, K)
        except Violation as v:
            if v.signature in ctx.known_signatures:
                ctx.stats.known[ctx.known_signatures[v.signature]] += 1
            else:
                ctx.stats.notes[f"corpus:{name}:{v.signature}"] += 1
                ctx.stats.extra.setdefault("corpus_disagreements", []).append({"file": name, "signature": v.signature})


def run_shard(ctx):
    K = ctx.scale(oracle.K_QUICK, oracle.K_THOROUGH)
    if ctx.shard == 0:
        run_corpus(ctx, K)
    n = ctx.scale(100, 1200)
    cfg = programs.Cfg() if ctx.quick() else programs.Cfg(max_funcs=4, loop_stmts=4, func_stmts=4)
    hyp_search(ctx, programs.program_cases(cfg), lambda c: check_case(c, ctx.stats, K), n)
    # a second family: programs without functions whose main code terminates
    cfg2 = programs.Cfg(max_funcs=0, terminating_main=True, main_stmts=4)
    hyp_search(ctx, programs.program_cases(cfg2), lambda c: check_case(c, ctx.stats, K), max(10, n // 5), label="terminating")


def replay(case):
    try:
        check_case(case, None, case.get("K", oracle.K_QUICK))
    except Violation as v:
        return {"kind": "violation", "signature": v.signature, "detail": v.detail}
    return {"kind": "ok"}
