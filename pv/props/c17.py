"""C17 - reported size statistics describe the emitted program (DESIGN section 17)."""
import re

from hypothesis import strategies as st

from .. import ic10vm, oracle, repo
from ..gen import callgraph, programs
from ..gen import options as gopt
from ..runner import Violation, hyp_search, sha

ID = "C17"
LEVEL = "exploration"
RULE = (
    "Successful results of Hypothesis-constructed programs (general, call-graph, library-module and degenerate "
    "programs: empty, comments only, unused functions only, one instruction, non-ASCII source comments) under a drawn "
    "option vector; oracle: independent recount - num_lines == number of lines of 'code' (0 for empty), num_bytes == "
    "size of 'code' with CR LF line ends (character count admitted for non-ASCII comment text), num_registers == "
    "number of distinct r0-r15 tokens in operand positions of 'code' == size of the allocated set exported by the "
    "hook, <= 16. Non-trivial: >= 2 lines and >= 1 register; distinct by SHA-1 of (source, options)."
)
ASSUMPTIONS = [
    "generated programs never name r0-r15 explicitly, so every register token in the output was allocated by the transpiler",
    "'size' of non-ASCII text: both the UTF-8 byte count and the character count are admitted (the property says 'size')",
]
RTOK = re.compile(r"^r(\d+)$")

DEGENERATE = [
    "", "\n", "# only a comment\n", "from stationeers_pytrapic.symbols import *\n",
    "from stationeers_pytrapic.symbols import *\ndef unused(a):\n    db.Setting = a\n",
    "from stationeers_pytrapic.symbols import *\nyield_()\n",
    "from stationeers_pytrapic.symbols import *\ndb.Setting = 1  # größe ☃ 𝄞\n",
    "from stationeers_pytrapic.symbols import *\n# ünïcödé\nx = d0.Setting  # ☃\ndb.Setting = x + 1\n",
    "from stationeers_pytrapic.symbols import *\npass\n",
    "from stationeers_pytrapic.symbols import *\nx = 5\n",
]


def nshards(tier):
    return 16


def recount(res):
    code = res["code"]
    lines = code.split("\n") if code != "" else []
    crlf = code.replace("\n", "\r\n")
    regs = set()
    for l in lines:
        for t in ic10vm.tokenize(l)[1:]:
            m = RTOK.match(t)
            if m:
                regs.add(int(m.group(1)))
    return len(lines), {len(crlf.encode("utf-8")), len(crlf)}, regs


def check_case(case, stats=None):
    srcs, opts = case["src"], dict(case.get("opts") or {})
    comp = repo.load()
    res = comp.compile_code(dict(srcs), comp.CompileOptions(**opts))
    if stats is not None:
        stats.evaluations += 1
    if "error" in res:
        if stats is not None:
            stats.discarded["reject"] += 1
        return
    for k in ("num_lines", "num_bytes", "num_registers"):
        if not isinstance(res.get(k), int) or isinstance(res.get(k), bool) or res[k] < 0:
            raise Violation(f"C17:{k}-not-a-non-negative-int", {"value": repr(res.get(k)), "opts": opts})
    nl, nb, regs = recount(res)
    detail = {"opts": opts, "code": res["code"], "reported": {k: res[k] for k in ("num_lines", "num_bytes", "num_registers")},
              "recount": {"lines": nl, "bytes": sorted(nb), "registers": sorted(regs)}}
    if res["num_lines"] != nl:
        raise Violation("C17:num_lines-differs", detail)
    if res["num_bytes"] not in nb:
        raise Violation("C17:num_bytes-differs", detail)
    alloc = (res.get("_verif") or {}).get("allocated")
    if alloc is not None and res["num_registers"] != len(set(alloc)):
        raise Violation("C17:num_registers-differs-from-allocated-set", dict(detail, allocated=alloc))
    if res["num_registers"] > 16:
        raise Violation("C17:num_registers-above-16", detail)
    if res["num_registers"] < len(regs):
        raise Violation("C17:num_registers-misses-registers-used-in-code", detail)
    if case.get("no_explicit_registers", True) and res["num_registers"] != len(regs):
        raise Violation("C17:num_registers-counts-registers-absent-from-code", detail)
    if stats is not None:
        stats.classes["lines=%s" % ("0" if nl == 0 else "1" if nl == 1 else "2-20" if nl <= 20 else "21-128" if nl <= 128 else ">128")] += 1
        stats.classes["registers=%02d" % res["num_registers"]] += 1
        if any(ord(ch) > 127 for ch in res["code"]):
            stats.classes["non-ascii-in-output"] += 1
        if len(srcs) > 1:
            stats.classes["library-modules"] += 1
        if nl >= 2 and res["num_registers"] >= 1:
            stats.nontrivial.add(sha([srcs, opts])[:16])
            stats.sample({"source": srcs[""], "options": opts, "reported": detail["reported"]}, limit=2)


@st.composite
def cases(draw):
    k = draw(st.integers(0, 13))
    if k >= 12:
        # programs split over library modules (module-level state, functions that only touch globals)
        from . import c13
        m = draw(c13.cases())
        A, _ = c13.render(m)
        c = {"src": A, "features": ["library-modules"]}
    elif k == 0:
        c = {"src": {"": DEGENERATE[draw(st.integers(0, len(DEGENERATE) - 1))]}}
    elif k <= 7:
        c = draw(programs.program_cases(programs.Cfg(call_bias=10), nenv=0))
        if draw(st.booleans()):
            # non-ASCII source comments (visible with original_code_as_comment)
            c["src"][""] = c["src"][""].replace("yield_()", "yield_()  # tick ☃ größe", 1)
    else:
        c = draw(callgraph.callgraph_cases(nenv=0))
    vec = gopt.vector_from_bits(draw(st.integers(0, 255)))
    vec["tail_call_optimization"] = False
    c["opts"] = vec
    return c


def run_shard(ctx):
    if ctx.shard == 0:
        for src in DEGENERATE:
            for bits in (0, 255, 16, 1):
                vec = gopt.vector_from_bits(bits)
                ctx.run_fixed({"src": {"": src}, "opts": vec}, lambda c: check_case(c, ctx.stats))
    hyp_search(ctx, cases(), lambda c: check_case(c, ctx.stats), ctx.scale(250, 3000))


def replay(case):
    try:
        check_case(case, None)
    except Violation as v:
        return {"kind": "violation", "signature": v.signature, "detail": v.detail}
    return {"kind": "ok"}
