"""E2 - reference interpreter of the PyTrapIC dialect over the stdlib ast.

Independent of astroid and of every transpiler pass.  Python control flow and scoping, IC10
arithmetic (pv.alu).  Constructs outside the modelled dialect raise Unsupported (case discarded),
sources that are ill-defined Python raise SrcError (case discarded).
"""
import ast
import math

from . import alu, repo, tables
from .ic10vm import crc, strpack

_PLAIN, _QUAL = tables.enum_tables()


class Unsupported(Exception):
    """construct outside the modelled dialect -> case is discarded, never a violation"""


class SrcError(Exception):
    """the source program itself is ill-defined under Python semantics (e.g. unbound name)"""


class Stop(Exception):
    pass


class _Break(Exception):
    pass


class _Continue(Exception):
    pass


class _Return(Exception):
    def __init__(self, v, early=False):
        self.v = v
        self.early = early


class Pin:
    def __init__(self, name):
        self.key = ("pin", name)


class Struct:
    def __init__(self, cls, key):
        self.cls = cls  # repo structure class or None (generic)
        self.key = key


class Batch:
    def __init__(self, cls, prefab, name=None, mode=None):
        self.cls, self.prefab, self.name, self.mode = cls, prefab, name, mode


class BatchLT:
    def __init__(self, batch, lt):
        self.batch, self.lt = batch, lt


class Slot:
    def __init__(self, owner, idx):
        self.owner, self.idx = owner, idx


class BatchSlotLT:
    def __init__(self, slot, lst):
        self.slot, self.lst = slot, lst


class StackRef:
    def __init__(self, key):
        self.key = key


class Func:
    def __init__(self, node, module):
        self.node, self.module = node, module


class Module:
    def __init__(self, name):
        self.name = name
        self.globals = {}


BATCH_MODES = {"Average": 0.0, "Sum": 1.0, "Minimum": 2.0, "Maximum": 3.0}


def lt_canon(name, kind="LogicType"):
    return _PLAIN[kind].get(name, name)


def structure_tables():
    from stationeers_pytrapic import structures_generated as sg
    from stationeers_pytrapic import types as T

    single, plural = {}, {}
    for n, v in vars(sg).items():
        if isinstance(v, type) and issubclass(v, T._BaseStructure) and getattr(v, "_prefab_name", None) and not n.startswith("_"):
            single[n] = v
        elif isinstance(v, T._BaseStructures) and getattr(v, "_prefab_name", None):
            plural[n] = v
    return single, plural


SINGLE, PLURAL = structure_tables()


def slot_index(cls, attr, plural=False):
    """index of slot attribute attr (slotN or a named slot) on structure class cls, or None"""
    if cls is None:
        return None
    try:
        if plural:
            obj = cls if not isinstance(cls, type) else cls()
        else:
            obj = cls("d0")
        prop = getattr(type(obj), attr, None)
        if not isinstance(prop, property):
            return None
        v = prop.fget(obj)
        if hasattr(v, "_slot_index") and not hasattr(v, "_slot_type"):
            return float(v._slot_index)
    except Exception:
        return None
    return None


MATH1 = {"sin": alu.sin, "cos": alu.cos, "tan": alu.tan, "asin": alu.asin, "acos": alu.acos,
         "atan": alu.atan, "sqrt": alu.sqrt, "log": alu.log, "exp": alu.exp, "abs": alu.abs_,
         "floor": alu.floor, "ceil": alu.ceil, "trunc": alu.trunc, "round": alu.round_}
MATH2 = {"atan2": alu.atan2, "max": alu.max_, "min": alu.min_, "mod": alu.mod, "add": alu.add,
         "sub": alu.sub, "mul": alu.mul, "div": alu.div, "pow": alu.pow_, "xor": alu.xor,
         "nor": alu.nor, "sll": alu.sll, "srl": alu.srl, "sra": alu.sra,
         "seq": alu.seq, "sne": alu.sne, "slt": alu.slt, "sle": alu.sle, "sgt": alu.sgt, "sge": alu.sge}
CONSTS = {"pi": math.pi, "tau": 2 * math.pi, "rgas": 8.31446261815324}

BINOPS = {ast.Add: alu.add, ast.Sub: alu.sub, ast.Mult: alu.mul, ast.Div: alu.div, ast.Mod: alu.mod,
          ast.Pow: alu.pow_, ast.BitXor: alu.xor, ast.BitAnd: alu.and_, ast.RShift: alu.srl,
          ast.LShift: alu.sll}
CMPOPS = {ast.Eq: alu.seq, ast.NotEq: alu.sne, ast.Lt: alu.slt, ast.LtE: alu.sle, ast.Gt: alu.sgt, ast.GtE: alu.sge}


class Interp:
    def __init__(self, src, env, max_steps=20000, max_effects=200):
        if isinstance(src, str):
            src = {"": src}
        self.src = src
        self.env = env
        self.trace = []
        self.steps = 0
        self.max_steps, self.max_effects = max_steps, max_effects
        self.stack = [0.0] * 512
        self.sp = 0
        self.halted = None
        self.modules = {}
        self.calls = 0
        self.depth = 0
        self.max_call_depth = 0
        self.loop_iters = 0  # total loop iterations executed
        self.nan_compare = False  # a comparison saw a NaN operand (D22: discard the case)
        self.conds = 0
        self.early_returns = 0
        self.reads = 0

    # -------- plumbing
    def tick(self):
        self.steps += 1
        if self.steps > self.max_steps:
            self.halted = "steps"
            raise Stop()

    def effect(self, *ev):
        if len(self.trace) >= self.max_effects:
            self.halted = "effects"
            raise Stop()
        self.trace.append(tuple(ev))

    def read(self, *key):
        self.reads += 1
        return float(self.env(key, len(self.trace)))

    def run(self):
        try:
            main = Module("")
            self.modules[""] = main
            tree = ast.parse(self.src[""])
            self.exec_module(tree, main, "__main__")
            self.halted = "end"
        except Stop:
            pass
        return self.trace

    def exec_module(self, tree, mod, name):
        mod.globals["__name__"] = name
        frame = {"mod": mod, "locals": None, "globals_decl": set()}
        for st in tree.body:
            self.stmt(st, frame)

    # -------- names
    def lookup(self, name, fr):
        if fr["locals"] is not None and name in fr["locals"]:
            return fr["locals"][name]
        g = fr["mod"].globals
        if name in g:
            return g[name]
        b = self.builtin(name)
        if b is not None:
            return b
        raise SrcError(f"unbound name {name}")

    def assign(self, name, v, fr):
        if fr["locals"] is not None and name not in fr["globals_decl"]:
            fr["locals"][name] = v
        else:
            fr["mod"].globals[name] = v

    def builtin(self, name):
        if name in ("d0", "d1", "d2", "d3", "d4", "d5", "db"):
            return Pin(name)
        if name in CONSTS:
            return CONSTS[name]
        if name == "stack":
            return StackRef(("pin", "db"))
        if name in SINGLE:
            return ("structcls", SINGLE[name])
        if name in PLURAL:
            p = PLURAL[name]
            return Batch(p, crc(p._prefab_name))
        if name in ("True", "False"):
            return 1.0 if name == "True" else 0.0
        if name in _ENUMS:
            return ("enumcls", name)
        return None

    # -------- statements
    def stmt(self, st, fr):
        self.tick()
        if isinstance(st, (ast.Import, ast.Pass)):
            return
        if isinstance(st, ast.ImportFrom):
            if st.module == "library":
                for al in st.names:
                    if al.name not in self.src:
                        raise SrcError("missing library " + al.name)
                    m = Module(al.asname or al.name)
                    self.modules[m.name] = m
                    self.exec_module(ast.parse(self.src[al.name]), m, m.name)
                    fr["mod"].globals[al.asname or al.name] = m
            return
        if isinstance(st, ast.FunctionDef):
            if st.decorator_list:
                raise Unsupported("decorators")
            fr["mod"].globals[st.name] = Func(st, fr["mod"])
            return
        if isinstance(st, ast.Global):
            fr["globals_decl"].update(st.names)
            return
        if isinstance(st, ast.Expr):
            self.expr(st.value, fr)
            return
        if isinstance(st, ast.Assign):
            if len(st.targets) != 1:
                raise Unsupported("multi-assign")
            self.store(st.targets[0], self.expr(st.value, fr), fr)
            return
        if isinstance(st, ast.AugAssign):
            if not isinstance(st.target, ast.Name):
                raise Unsupported("augassign target")
            cur = self.lookup(st.target.id, fr)
            v = self.binop(type(st.op), cur, self.expr(st.value, fr))
            self.assign(st.target.id, v, fr)
            return
        if isinstance(st, ast.If):
            if self.truth(self.expr(st.test, fr)):
                self.block(st.body, fr)
            else:
                self.block(st.orelse, fr)
            return
        if isinstance(st, ast.While):
            if st.orelse:
                raise Unsupported("while-else")
            while self.truth(self.expr(st.test, fr)):
                self.tick()
                self.loop_iters += 1
                try:
                    self.block(st.body, fr)
                except _Break:
                    break
                except _Continue:
                    continue
            return
        if isinstance(st, ast.For):
            if st.orelse or not isinstance(st.target, ast.Name):
                raise Unsupported("for form")
            it = st.iter
            if isinstance(it, ast.Call) and isinstance(it.func, ast.Name) and it.func.id == "range":
                a = [self.num(self.expr(x, fr)) for x in it.args]
                if len(a) == 1:
                    start, stop, step = 0.0, a[0], 1.0
                elif len(a) == 2:
                    start, stop, step = a[0], a[1], 1.0
                else:
                    start, stop, step = a
                if step == 0:
                    raise SrcError("range step 0")
                i = start
                while (i < stop) if step > 0 else (i > stop):
                    self.tick()
                    self.loop_iters += 1
                    self.assign(st.target.id, i, fr)
                    try:
                        self.block(st.body, fr)
                    except _Break:
                        break
                    except _Continue:
                        pass
                    i = i + step
                return
            seq = self.expr(it, fr)
            if not isinstance(seq, list):
                raise Unsupported("for over non-list")
            for v in seq:
                self.tick()
                self.loop_iters += 1
                self.assign(st.target.id, v, fr)
                try:
                    self.block(st.body, fr)
                except _Break:
                    break
                except _Continue:
                    continue
            return
        if isinstance(st, ast.Break):
            raise _Break()
        if isinstance(st, ast.Continue):
            raise _Continue()
        if isinstance(st, ast.Return):
            raise _Return(self.expr(st.value, fr) if st.value is not None else None,
                          early=fr.get("last") is not st)
        raise Unsupported(type(st).__name__)

    def block(self, body, fr):
        for s in body:
            self.stmt(s, fr)

    def store(self, tgt, v, fr):
        if isinstance(tgt, ast.Name):
            self.assign(tgt.id, v, fr)
        elif isinstance(tgt, ast.Attribute):
            obj = self.expr(tgt.value, fr)
            self.setattr(obj, tgt.attr, self.num(v))
        elif isinstance(tgt, ast.Subscript):
            obj = self.expr(tgt.value, fr)
            idx = self.num(self.expr(tgt.slice, fr))
            if not isinstance(obj, StackRef):
                raise Unsupported("subscript store")
            val = self.num(v)
            if obj.key == ("pin", "db"):
                self.mem_write(idx, val)
            else:
                self.effect("put", obj.key, idx, val)
        else:
            raise Unsupported("store target")

    def mem_addr(self, idx):
        if math.isnan(idx) or math.isinf(idx) or not 0 <= int(idx) < 512:
            raise SrcError("stack address")
        return int(idx)

    def mem_write(self, idx, val):
        self.stack[self.mem_addr(idx)] = val

    # -------- values
    def num(self, v):
        if isinstance(v, bool):
            return 1.0 if v else 0.0
        if isinstance(v, (int, float)):
            return float(v)
        if isinstance(v, tuple) and v[0] == "enum":
            return v[1]
        raise Unsupported(f"not a number: {v!r}")

    def truth(self, v):
        return self.num(v) != 0

    def binop(self, op, a, b):
        if op not in BINOPS:
            raise Unsupported("binop " + op.__name__)
        return BINOPS[op](self.num(a), self.num(b))

    def setattr(self, obj, attr, val):
        if isinstance(obj, Pin):
            self.effect("s", obj.key, lt_canon(attr), val)
        elif isinstance(obj, Struct):
            self.effect("s", obj.key, lt_canon(attr), val)
        elif isinstance(obj, Slot) and isinstance(obj.owner, Struct):
            self.effect("ss", obj.owner.key, obj.idx, lt_canon(attr, "LogicSlotType"), val)
        elif isinstance(obj, Slot) and isinstance(obj.owner, Batch):
            b = obj.owner
            if b.name is not None:
                raise Unsupported("named batch slot store")
            self.effect("sbs", b.prefab, obj.idx, lt_canon(attr, "LogicSlotType"), val)
        elif isinstance(obj, Batch):
            if obj.name is None:
                self.effect("sb", obj.prefab, lt_canon(attr), val)
            else:
                self.effect("sbn", obj.prefab, obj.name, lt_canon(attr), val)
        else:
            raise Unsupported("setattr on " + type(obj).__name__)

    def getattr(self, obj, attr):
        if isinstance(obj, Module):
            if attr not in obj.globals:
                raise SrcError("module attr")
            return obj.globals[attr]
        if isinstance(obj, tuple) and obj[0] == "enumcls":
            return ("enum", _QUAL[f"{obj[1]}.{attr}"], f"{obj[1]}.{attr}")
        if isinstance(obj, Pin):
            return self.read("l", obj.key, lt_canon(attr))
        if isinstance(obj, Struct):
            si = slot_index(obj.cls, attr)
            if si is not None:
                return Slot(obj, si)
            if isinstance(obj.key, Batch):
                raise Unsupported("batch-mode device")
            return self.read("l", obj.key, lt_canon(attr))
        if isinstance(obj, Slot):
            if isinstance(obj.owner, Struct):
                return self.read("ls", obj.owner.key, obj.idx, lt_canon(attr, "LogicSlotType"))
            return BatchSlotLT(obj, lt_canon(attr, "LogicSlotType"))
        if isinstance(obj, BatchSlotLT):
            b = obj.slot.owner
            if attr not in BATCH_MODES:
                raise Unsupported("batch slot attr")
            if b.name is None:
                return self.read("lbs", b.prefab, obj.slot.idx, obj.lst, BATCH_MODES[attr])
            return self.read("lbns", b.prefab, b.name, obj.slot.idx, obj.lst, BATCH_MODES[attr])
        if isinstance(obj, Batch):
            if attr in BATCH_MODES and obj.mode is None:
                return Batch(obj.cls, obj.prefab, obj.name, BATCH_MODES[attr])
            si = slot_index(obj.cls, attr, plural=True)
            if si is not None:
                return Slot(obj, si)
            if obj.mode is not None:
                return self.batch_read(obj, lt_canon(attr), obj.mode)
            return BatchLT(obj, lt_canon(attr))
        if isinstance(obj, BatchLT):
            if attr not in BATCH_MODES:
                raise Unsupported("batch lt attr")
            return self.batch_read(obj.batch, obj.lt, BATCH_MODES[attr])
        raise Unsupported("getattr on " + type(obj).__name__)

    def batch_read(self, b, lt, mode):
        if b.name is None:
            return self.read("lb", b.prefab, lt, mode)
        return self.read("lbn", b.prefab, b.name, lt, mode)

    def ltnum(self, v, kind):
        """logic type / batch mode given as enum member, number or name string"""
        if isinstance(v, str):
            return lt_canon(v, kind)
        return self.num(v)

    def devkey(self, v):
        if isinstance(v, Pin):
            return v.key
        if isinstance(v, Struct):
            return v.key
        return ("ref", self.num(v))

    # -------- expressions
    def expr(self, e, fr):
        self.tick()
        if isinstance(e, ast.Constant):
            if isinstance(e.value, bool):
                return 1.0 if e.value else 0.0
            if isinstance(e.value, (int, float)):
                return float(e.value)
            if isinstance(e.value, str):
                return e.value
            raise Unsupported("constant")
        if isinstance(e, ast.Name):
            return self.lookup(e.id, fr)
        if isinstance(e, ast.Attribute):
            return self.getattr(self.expr(e.value, fr), e.attr)
        if isinstance(e, ast.BinOp):
            a = self.expr(e.left, fr)
            b = self.expr(e.right, fr)
            return self.binop(type(e.op), a, b)
        if isinstance(e, ast.UnaryOp):
            v = self.num(self.expr(e.operand, fr))
            if isinstance(e.op, ast.USub):
                return alu.sub(0.0, v)
            if isinstance(e.op, ast.Not):
                return alu.seq(v, 0.0)
            if isinstance(e.op, ast.UAdd):
                raise Unsupported("uadd")
            return alu.not_(v)
        if isinstance(e, ast.BoolOp):
            vals = [self.num(self.expr(v, fr)) for v in e.values]  # no short circuit in the dialect
            f = alu.and_ if isinstance(e.op, ast.And) else alu.or_
            # right-nested like the transpiler's BoolOp->BinOp rewrite (associative anyway)
            r = vals[-1]
            for v in reversed(vals[:-1]):
                r = f(v, r)
            return r
        if isinstance(e, ast.Compare):
            if len(e.ops) != 1:
                raise Unsupported("chained compare")
            a = self.expr(e.left, fr)
            b = self.expr(e.comparators[0], fr)
            if type(e.ops[0]) not in CMPOPS:
                raise Unsupported("cmp op")
            if isinstance(a, str) and isinstance(b, str):
                if isinstance(e.ops[0], ast.Eq):
                    return alu.b2f(a == b)
                if isinstance(e.ops[0], ast.NotEq):
                    return alu.b2f(a != b)
                raise Unsupported('string ordering')
            fa, fb = self.num(a), self.num(b)
            if math.isnan(fa) or math.isnan(fb):
                self.nan_compare = True
            self.conds += 1
            return CMPOPS[type(e.ops[0])](fa, fb)
        if isinstance(e, ast.IfExp):
            t = self.num(self.expr(e.test, fr))
            a = self.expr(e.body, fr)
            b = self.expr(e.orelse, fr)
            return a if t != 0 else b
        if isinstance(e, (ast.List, ast.Tuple)):
            return [self.expr(x, fr) for x in e.elts]
        if isinstance(e, ast.Subscript):
            obj = self.expr(e.value, fr)
            idx = self.expr(e.slice, fr)
            if isinstance(obj, list):
                i = self.num(idx)
                if i != int(i) or not 0 <= int(i) < len(obj):
                    raise SrcError("list index")
                return obj[int(i)]
            if isinstance(obj, StackRef):
                i = self.num(idx)
                if obj.key == ("pin", "db"):
                    return self.stack[self.mem_addr(i)]
                return self.read("get", obj.key, i)
            if isinstance(obj, Batch):
                name = crc(idx) if isinstance(idx, str) else self.num(idx)
                return Batch(obj.cls, obj.prefab, name, obj.mode)
            raise Unsupported("subscript")
        if isinstance(e, ast.Call):
            return self.call(e, fr)
        raise Unsupported(type(e).__name__)

    def call(self, e, fr):
        f = e.func
        if isinstance(f, ast.Name) and f.id not in fr["mod"].globals and (fr["locals"] is None or f.id not in fr["locals"]):
            return self.builtin_call(f.id, e, fr)
        fn = self.expr(f, fr)
        if isinstance(fn, Func):
            if e.keywords:
                raise Unsupported("kwargs to user function")
            args = [self.expr(a, fr) for a in e.args]
            params = [a.arg for a in fn.node.args.args]
            if len(args) != len(params) or fn.node.args.defaults or fn.node.args.vararg or fn.node.args.kwonlyargs:
                raise Unsupported("arity")
            self.depth += 1
            self.max_call_depth = max(self.max_call_depth, self.depth)
            if self.depth > 40:
                raise Unsupported("recursion")
            nf = {"mod": fn.module, "locals": dict(zip(params, args)), "globals_decl": set(),
                  "last": fn.node.body[-1] if fn.node.body else None}
            ret = None
            try:
                self.block(fn.node.body, nf)
            except _Return as r:
                ret = r.v
                if r.early:
                    self.early_returns += 1
            self.depth -= 1
            self.calls += 1
            return ret if ret is not None else 0.0
        raise Unsupported("call of " + repr(fn))

    def builtin_call(self, name, e, fr):
        args = [self.expr(a, fr) for a in e.args]
        kw = {k.arg: self.expr(k.value, fr) for k in e.keywords}
        if name == "HASH":
            return crc(args[0])
        if name == "STR":
            return strpack(args[0])
        if name in SINGLE:
            cls = SINGLE[name]
            if "ref_id" in kw:
                return Struct(cls, ("ref", self.num(kw["ref_id"])))
            d = args[0] if args else kw.get("device_id")
            return Struct(cls, self.devkey(d))
        if name in ("Device", "_Device"):
            if "ref_id" in kw:
                return Struct(None, ("ref", self.num(kw["ref_id"])))
            d = args[0] if args else kw.get("device_id")
            if d is None:
                raise Unsupported("Device() without id")
            return Struct(None, self.devkey(d))
        if name in ("Devices", "_Devices"):
            h = args[0] if args else kw.get("prefabHash")
            nm = args[1] if len(args) > 1 else kw.get("name")
            if isinstance(nm, str):
                nm = crc(nm)
            return Batch(None, self.num(h), None if nm is None else self.num(nm))
        if name in ("sdse", "sdns"):
            isset = self.read("devset", self.devkey(args[0])) != 0
            return alu.b2f(isset if name == "sdse" else not isset)
        if name == "clr":
            k = self.devkey(args[0])
            if k == ("pin", "db"):
                self.stack = [0.0] * 512
            else:
                self.effect("clr", k)
            return 0.0
        if name == "hcf":
            self.effect("hcf")
            self.halted = "hcf"
            raise Stop()
        if name == "Stack":
            if "ref_id" in kw:
                return StackRef(("ref", self.num(kw["ref_id"])))
            if not args and "device_id" not in kw:
                return StackRef(("pin", "db"))
            d = args[0] if args else kw["device_id"]
            return StackRef(self.devkey(d))
        if name == "s" and len(args) == 3:
            self.effect("s", self.devkey(args[0]), self.ltnum(args[1], "LogicType"), self.num(args[2]))
            return 0.0
        if name == "sb" and len(args) == 3:
            self.effect("sb", self.num(args[0]), self.ltnum(args[1], "LogicType"), self.num(args[2]))
            return 0.0
        if name == "l" and len(args) == 2:
            return self.read("l", self.devkey(args[0]), self.ltnum(args[1], "LogicType"))
        if name == "lb" and len(args) == 3:
            return self.read("lb", self.num(args[0]), self.ltnum(args[1], "LogicType"), self.ltnum(args[2], "LogicBatchMethod"))
        if name in ("move",) and len(args) == 1:
            return self.num(args[0])
        if name == "lerp" and len(args) == 3:
            return alu.lerp(*[self.num(a) for a in args])
        if name == "yield_":
            self.effect("yield")
            return 0.0
        if name == "sleep":
            self.effect("sleep", self.num(args[0]))
            return 0.0
        if name in MATH1 and len(args) == 1:
            return MATH1[name](self.num(args[0]))
        if name in MATH2 and len(args) == 2:
            return MATH2[name](self.num(args[0]), self.num(args[1]))
        if name == "select":
            return alu.select(*[self.num(a) for a in args])
        if name == "push":
            self.mem_write(float(self.sp), self.num(args[0]))
            self.sp += 1
            return 0.0
        if name == "pop":
            self.sp -= 1
            return self.stack[self.mem_addr(float(self.sp))]
        if name == "peek":
            return self.stack[self.mem_addr(float(self.sp - 1))]
        raise Unsupported("builtin " + name)


_ENUMS = set(k.split(".")[0] for k in _QUAL)
