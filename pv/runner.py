"""Runner: sharding, Hypothesis driver with collect-then-shrink, evidence, known findings, replay."""
import collections
import concurrent.futures
import hashlib
import importlib
import json
import multiprocessing
import os
import sys
import time
import traceback

ROOT = os.path.dirname(os.path.dirname(os.path.abspath(__file__)))
# PV_OUT redirects evidence and replay files (used when trying seeded changes in a scratch worktree)
_OUT = os.environ.get("PV_OUT") or ROOT
EVIDENCE_DIR = os.path.join(_OUT, "evidence")
REPLAY_DIR = os.path.join(_OUT, "replays")
KNOWN_FILE = os.path.join(ROOT, "known_findings.json")


class Violation(Exception):
    """raised by an oracle: the property is violated on this case"""

    def __init__(self, signature, detail=None):
        super().__init__(signature)
        self.signature = signature
        self.detail = detail or {}


class HarnessError(Exception):
    pass


def sha(obj):
    return hashlib.sha1(json.dumps(obj, sort_keys=True, default=str).encode()).hexdigest()


class Stats:
    """per-shard accumulator; merged by the runner (everything JSON/pickle friendly)"""

    def __init__(self):
        self.evaluations = 0
        self.nontrivial = set()
        self.samples = []
        self.classes = collections.Counter()
        self.discarded = collections.Counter()
        self.known = collections.Counter()
        self.excluded = collections.Counter()
        self.violations = []  # dicts: signature, detail, case
        self.notes = collections.Counter()
        self.extra = {}

    def sample(self, obj, limit=4):
        if len(self.samples) < limit:
            self.samples.append(obj)

    def dump(self):
        return {
            "evaluations": self.evaluations,
            "nontrivial": sorted(self.nontrivial),
            "samples": self.samples,
            "classes": dict(self.classes),
            "discarded": dict(self.discarded),
            "known": dict(self.known),
            "excluded": dict(self.excluded),
            "violations": self.violations,
            "notes": dict(self.notes),
            "extra": self.extra,
        }


WORK_DIR = os.path.join(_OUT, ".work")


def crumb_path(prop, shard):
    return os.path.join(WORK_DIR, prop, f"shard{shard}.json")


class Ctx:
    def __init__(self, prop, tier, seed, shard, nshards):
        self.prop, self.tier, self.seed, self.shard, self.nshards = prop, tier, seed, shard, nshards
        self.stats = Stats()
        self.known_signatures = load_known_signatures(prop)
        self._crumb = crumb_path(prop, shard)
        os.makedirs(os.path.dirname(self._crumb), exist_ok=True)

    def crumb(self, case):
        """remember the case that is about to be executed: if the code under test never comes back
        (a hang inside C code cannot be interrupted in-process) the parent finds it here"""
        try:
            with open(self._crumb, "w") as f:
                json.dump({"t": time.time(), "case": case}, f, default=str)
        except Exception:
            pass

    @property
    def hyp_seed(self):
        return (self.seed * 1000003 + self.shard * 7919 + 17) & 0x7FFFFFFF

    def run_fixed(self, case, check):
        """run one enumerated (not generated) case; a violation is recorded instead of raised"""
        self.crumb(case)
        try:
            check(case)
        except Violation as v:
            if v.signature in self.known_signatures:
                self.stats.known[self.known_signatures[v.signature]] += 1
            else:
                self.stats.violations.append({"signature": v.signature, "detail": v.detail, "case": case})

    def quick(self):
        return self.tier == "quick"

    def scale(self, quick, thorough):
        return quick if self.tier == "quick" else thorough


# ------------------------------------------------------------------ known findings

def load_known():
    if not os.path.exists(KNOWN_FILE):
        return []
    with open(KNOWN_FILE) as f:
        return json.load(f)["findings"]


def load_known_signatures(prop):
    """signature -> finding id for OPEN findings that may surface while checking `prop`"""
    out = {}
    for e in load_known():
        if e.get("status") == "open" and (e["property"] == prop or prop in e.get("also_seen_by", [])):
            for s in e.get("signatures", [e.get("signature")]):
                if s:
                    out[s] = e["id"]
    return out


# ------------------------------------------------------------------ hypothesis driver

class _CaseTimeout(BaseException):
    pass


def _on_alarm(signum, frame):
    raise _CaseTimeout()


def with_watchdog(check, cap):
    """run check(case) under a wall-clock cap; a case that does not come back is reported as a hang of
    the code under test (C10's subject, whichever check meets it), never left hanging"""
    import signal

    def guarded(case):
        try:
            old = signal.signal(signal.SIGALRM, _on_alarm)
        except ValueError:  # not in the main thread
            return check(case)
        signal.setitimer(signal.ITIMER_REAL, cap)
        try:
            return check(case)
        except _CaseTimeout:
            raise Violation("C10:does-not-return-within-cap", {"cap_s": cap, "note": "the oracle call did not come back"})
        finally:
            signal.setitimer(signal.ITIMER_REAL, 0)
            signal.signal(signal.SIGALRM, old)

    return guarded


def hyp_search(ctx, strategy, check, max_examples, label="main", shrink_calls=400, case_cap=180):
    """Run `check(case)` over generated cases.  check returns None (ok/discard) or raises Violation.
    Violations whose signature is a known open finding are counted and do not stop the search.
    The first unknown violation is shrunk (bounded) and recorded in ctx.stats.violations."""
    import hypothesis
    from hypothesis import HealthCheck, Phase, given, settings

    holder = {"post": 0}
    if os.environ.get("PV_SHRINK_CALLS"):
        # detection sweeps over many seeded changes only need the verdict, not a minimal reproduction
        shrink_calls = int(os.environ["PV_SHRINK_CALLS"])
    if case_cap:
        check = with_watchdog(check, case_cap)
    failed = {}  # sha(case) -> Violation: outcomes stay consistent, so Hypothesis never sees flakiness

    def wrapped(case):
        h = sha(case)
        if h in failed:
            holder["v"], holder["case"] = failed[h], case
            raise failed[h]  # the same exception object: Hypothesis keys failures by their origin
        if holder.get("v") is not None:
            holder["post"] += 1
            if holder["post"] > shrink_calls:
                return  # shrink budget used up: every new candidate counts as passing
        ctx.crumb(case)
        try:
            check(case)
        except Violation as v:
            if v.signature in ctx.known_signatures:
                ctx.stats.known[ctx.known_signatures[v.signature]] += 1
                return
            if holder.get("v") is not None and v.signature != holder["v"].signature:
                return  # keep shrinking towards the same root cause
            failed[h] = v
            holder["v"] = v
            holder["case"] = case
            if v.signature == "C10:does-not-return-within-cap":
                holder["post"] = shrink_calls  # every further attempt costs the whole cap: do not shrink
            raise

    phases = [Phase.generate, Phase.shrink] if shrink_calls > 0 else [Phase.generate]
    test = given(strategy)(wrapped)
    test = settings(
        max_examples=max_examples,
        database=None,
        deadline=None,
        derandomize=False,
        report_multiple_bugs=False,
        suppress_health_check=list(HealthCheck),
        phases=phases,
        print_blob=False,
    )(test)
    test = hypothesis.seed(ctx.hyp_seed + zlib_crc(label))(test)
    try:
        test()
    except Violation:
        v = holder["v"]
        ctx.stats.violations.append({"signature": v.signature, "detail": v.detail, "case": holder["case"]})
    except hypothesis.errors.Flaky as e:  # includes FlakyFailure
        v = holder.get("v")
        if v is not None:
            ctx.stats.violations.append({"signature": v.signature, "detail": dict(v.detail, flaky=str(e)[:600]), "case": holder["case"]})
        else:
            raise HarnessError("flaky: " + str(e)[:300])
    except Exception as e:
        # an error inside the property library while it was shrinking (seen: ValueError in its ordering of text
        # choices): the violation itself was observed by the oracle and is reported un-shrunk
        v = holder.get("v")
        if v is None:
            raise
        ctx.stats.violations.append({"signature": v.signature, "detail": dict(v.detail, shrinking_aborted=repr(e)[:300]), "case": holder["case"]})


def zlib_crc(s):
    import zlib

    return zlib.crc32(s.encode()) & 0xFFFF


# ------------------------------------------------------------------ shard process

def _shard_main(args):
    prop, tier, seed, shard, nshards = args
    os.environ["PYTHONHASHSEED"] = "0"
    try:
        mod = importlib.import_module(f"pv.props.{prop.lower()}")
        ctx = Ctx(prop, tier, seed, shard, nshards)
        mod.run_shard(ctx)
        from pv import repo

        ctx.stats.extra["fast_infer_self_checks"] = repo.FAST["checked"]
        if repo.FAST["disabled_because"]:
            ctx.stats.notes["fast-infer-disabled: " + repo.FAST["disabled_because"]] += 1
        return {"ok": True, "stats": ctx.stats.dump()}
    except Exception:
        return {"ok": False, "error": traceback.format_exc()}


def merge(dumps):
    out = Stats()
    for d in dumps:
        out.evaluations += d["evaluations"]
        out.nontrivial.update(d["nontrivial"])
        for s in d["samples"]:
            out.sample(s, limit=6)
        out.classes.update(d["classes"])
        out.discarded.update(d["discarded"])
        out.known.update(d["known"])
        out.excluded.update(d["excluded"])
        out.violations.extend(d["violations"])
        out.notes.update(d["notes"])
        for k, v in d["extra"].items():
            if isinstance(v, (int, float)) and not isinstance(v, bool):
                out.extra[k] = out.extra.get(k, 0) + v
            elif isinstance(v, list):
                out.extra.setdefault(k, []).extend(v)
            else:
                out.extra[k] = v
    return out


def write_replay(prop, viol):
    d = os.path.join(REPLAY_DIR, prop)
    os.makedirs(d, exist_ok=True)
    body = {"property": prop, "signature": viol["signature"], "detail": viol["detail"], "case": viol["case"]}
    path = os.path.join(d, sha(body)[:16] + ".json")
    with open(path, "w") as f:
        json.dump(body, f, indent=1, default=str)
    return os.path.relpath(path, _OUT)


def check_known(prop, mod, out):
    """replay witnesses: open ones print KNOWN-FINDING, fixed ones must pass.  returns violations"""
    viols = []
    for e in load_known():
        if e["property"] != prop:
            continue
        wpaths = [os.path.join(ROOT, x) for x in ([e["witness"]] if e.get("witness") else []) + list(e.get("more_witnesses", []))]
        if not wpaths:
            if e.get("status") == "open":
                out(f"KNOWN-FINDING: property={prop} {e['id']} {e['what']}")
            continue
        printed = False
        for wpath in wpaths:
            with open(wpath) as f:
                w = json.load(f)
            res = mod.replay(w["case"])
            if e.get("status") == "open":
                if res["kind"] == "violation" and res["signature"] in e.get("signatures", [e.get("signature")]):
                    if not printed:
                        out(f"KNOWN-FINDING: property={prop} {e['id']} {e['what']}")
                        printed = True
                elif res["kind"] == "violation":
                    viols.append({"signature": res["signature"], "detail": dict(res.get("detail", {}), witness_of=e["id"]),
                                  "case": w["case"]})
                else:
                    out(f"NOTE: known finding {e['id']} no longer reproduces on this tree ({res['kind']}; {os.path.basename(wpath)})")
            else:
                if res["kind"] == "violation":
                    viols.append({"signature": res["signature"], "detail": dict(res.get("detail", {}), regression_of=e["id"]),
                                  "case": w["case"]})
    return viols


def run_check(prop, tier, seed, out=print):
    t0 = time.time()
    mod = importlib.import_module(f"pv.props.{prop.lower()}")
    nshards = mod.nshards(tier) if hasattr(mod, "nshards") else 16
    args = [(prop, tier, seed, i, nshards) for i in range(nshards)]
    dumps = []
    hung = []
    import shutil

    shutil.rmtree(os.path.join(WORK_DIR, prop), ignore_errors=True)
    ctxmp = multiprocessing.get_context(os.environ.get("PV_MP", "spawn"))
    workers = min(int(os.environ.get("PV_WORKERS", str(getattr(mod, "WORKERS", 4)))), nshards)
    deadline = float(os.environ.get("PV_DEADLINE", str((getattr(mod, "DEADLINE", None) or {}).get(tier, 1800 if tier == "quick" else 4 * 3600))))
    # the transpiler's parser library keeps every parsed module alive (about 0.5 MB per compilation): in the
    # thorough tier every shard gets a process of its own so that memory stays bounded by one shard
    kw = {"max_tasks_per_child": 1} if tier != "quick" else {}
    ex = concurrent.futures.ProcessPoolExecutor(max_workers=workers, mp_context=ctxmp, **kw)
    futs = [ex.submit(_shard_main, a) for a in args]
    done, not_done = concurrent.futures.wait(futs, timeout=deadline)
    results = []
    if not_done:
        # some shard did not come back: kill the workers and look at what each was doing
        now = time.time()
        for p in list(getattr(ex, "_processes", {}).values()):
            try:
                p.kill()
            except Exception:
                pass
        ex.shutdown(wait=False, cancel_futures=True)
        stuck_found = False
        for i, f in enumerate(futs):
            if f in done and not f.cancelled() and f.exception() is None:
                results.append(f.result())
                continue
            try:
                with open(crumb_path(prop, i)) as fh:
                    c = json.load(fh)
            except Exception:
                continue
            out(f"NOTE: shard {i} unfinished at the deadline, current case running for {now - c['t']:.0f} s")
            if now - c["t"] > getattr(mod, "STUCK_S", 90):
                stuck_found = True
                hung.append({"signature": "C10:does-not-return-within-cap", "case": c["case"],
                             "detail": {"stuck_for_s": round(now - c["t"]), "shard": i, "note": "the worker was killed by the runner's deadline while executing this case"}})
        if not stuck_found:
            raise HarnessError(f"deadline of {deadline:.0f} s exceeded without a stuck case (check too slow for this machine?)")
    else:
        ex.shutdown(wait=True)
        results = [f.result() for f in futs]
    for r in results:
        if not r["ok"]:
            raise HarnessError("shard failed:\n" + r["error"])
        dumps.append(r["stats"])
    st = merge(dumps)
    st.violations.extend(hung[:1])
    viols = check_known(prop, mod, out)
    # findings listed under another property whose signature was met (and swallowed) during this search
    by_id = {e["id"]: e for e in load_known()}
    for fid, n in sorted(st.known.items()):
        e = by_id.get(fid)
        if e is not None and e["property"] != prop:
            out(f"KNOWN-FINDING: property={prop} {fid} (listed under {e['property']}, met {n}x here) {e['what']}")
    # de-duplicate generated violations by signature
    seen = set()
    for v in st.violations:
        if v["signature"] in seen:
            continue
        seen.add(v["signature"])
        viols.append(v)
    replay_paths = []
    for v in viols:
        p = write_replay(prop, v)
        replay_paths.append(p)
        out(f"VIOLATION property={prop} replay={p}")
        out(f"  signature: {v['signature']}")
    shutil.rmtree(os.path.join(WORK_DIR, prop), ignore_errors=True)
    wall = time.time() - t0
    cov = {
        "evaluations": st.evaluations,
        "distinct_nontrivial": len(st.nontrivial),
        "rule": mod.RULE,
        "samples": st.samples,
        "classes": dict(st.classes),
        "discarded": dict(st.discarded),
        "known_finding_hits": dict(st.known),
        "excluded_by_construction": dict(st.excluded),
        "notes": dict(st.notes),
        "shards": nshards,
    }
    cov.update(st.extra)
    if getattr(mod, "EXHAUSTIVE", False):
        cov["exhaustive"] = True
    ev = {
        "property_id": prop,
        "tier": tier,
        "seed": seed,
        "level": getattr(mod, "LEVEL", "exploration"),
        "coverage": cov,
        "assumptions": list(getattr(mod, "ASSUMPTIONS", [])),
        "wall_s": round(wall, 2),
        "violations": len(viols),
        "replays": replay_paths,
    }
    os.makedirs(EVIDENCE_DIR, exist_ok=True)
    with open(os.path.join(EVIDENCE_DIR, f"{prop}.json"), "w") as f:
        json.dump(ev, f, indent=1, default=str)
    out(f"{prop} {tier} seed={seed}: evaluations={st.evaluations} nontrivial={len(st.nontrivial)} "
        f"known_hits={sum(st.known.values())} discarded={sum(st.discarded.values())} violations={len(viols)} "
        f"wall={wall:.1f}s")
    return 1 if viols else 0


def run_replay(prop, path, out=print):
    mod = importlib.import_module(f"pv.props.{prop.lower()}")
    with open(path) as f:
        w = json.load(f)
    res = mod.replay(w["case"])
    out(json.dumps(res, indent=1, default=str)[:4000])
    if res["kind"] == "violation":
        out(f"VIOLATION property={prop} replay={path}")
        return 1
    return 0
