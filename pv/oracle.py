"""Shared oracle: compile, run source interpreter and reference machine under the same
environment, compare, and attribute a disagreement to its root cause (DESIGN 0.3 / 0.5)."""
import ast
import re

from . import compare, diag, ic10vm, repo, srcinterp, tables
from .runner import Violation

K_QUICK, K_THOROUGH = 40, 120


def public(res):
    """result dict without the verification hook's extra key"""
    return {k: v for k, v in res.items() if k != "_verif"}


def norm_error(desc):
    """first line of an error description without positions"""
    first = desc.splitlines()[0] if desc else ""
    first = re.sub(r"at line \d+:\d+", "at line L:C", first)
    return first[:70]


def error_class(desc):
    """an error description reduced to its kind: no position, no quoted names, no numbers"""
    first = desc.splitlines()[0] if desc else ""
    first = re.sub(r"^Compiler error at line \d+:\d+: ", "", first)
    first = re.sub(r"'[^']*'", "'?'", first)
    first = re.sub(r"(undefined function|Function) \S+", r"\1 ?", first)
    first = re.sub(r"\d+", "N", first)
    return first[:60]


OUT_OF_REGISTERS = re.compile(r"(?i)\bout of registers\b|\b(not enough|too many|no free|no more) registers\b")


def out_of_registers(desc):
    """the documented register-exhaustion rejection (today: 'Running out of registers, try to simplify your code.'),
    recognised by its meaning rather than by its exact wording"""
    return bool(OUT_OF_REGISTERS.search(desc or ""))


HELPER_TIMEOUT = re.compile(r"(?i)\btime[ -]?out\b|\btimed out\b")


def helper_timeout(desc):
    """the transpiler's report that its constexpr helper process ran into the time limit (today: 'Timeout during
    evaluating constexpr function call ..'), recognised by meaning"""
    return bool(HELPER_TIMEOUT.search(desc or ""))


def compile_case(srcs, opts):
    return repo.compile_src(srcs, opts)


# ---------------------------------------------------------------- syntactic shape classifiers
# (shapes of OPEN known findings; used to give their witnesses a narrow signature)

def _always_returns(stmts):
    """every path through the statement list ends in `return <value>`"""
    if not stmts:
        return False
    last = stmts[-1]
    if isinstance(last, ast.Return):
        return last.value is not None
    if isinstance(last, ast.If):
        return bool(last.orelse) and _always_returns(last.body) and _always_returns(last.orelse)
    if isinstance(last, ast.While) and isinstance(last.test, ast.Constant) and last.test.value:
        # an endless loop is only left by return (or break)
        def has_break(nodes):
            for n in nodes:
                if isinstance(n, ast.Break):
                    return True
                if isinstance(n, (ast.While, ast.For, ast.FunctionDef)):
                    continue
                if has_break(list(ast.iter_child_nodes(n))):
                    return True
            return False
        return not has_break(last.body)
    return False


def source_shapes(src_text):
    shapes = set()
    try:
        tree = ast.parse(src_text)
    except SyntaxError:
        return shapes
    fdefs = [n for n in ast.walk(tree) if isinstance(n, ast.FunctionDef)]
    plain, _q = tables.enum_tables()
    logic_names = set().union(*[set(m) for m in plain.values()]) if plain else set()
    for f in fdefs:
        for lp in ast.walk(f):
            if isinstance(lp, (ast.For, ast.While)) and any(isinstance(y, (ast.For, ast.While)) and y is not lp for y in ast.walk(lp)):
                shapes.add("D39-nested-loops-in-function")
        if any(isinstance(x, ast.FunctionDef) and x is not f for x in ast.walk(f)):
            shapes.add("D36-nested-function-definition")
        if f.name in logic_names:
            shapes.add("D28-function-named-like-logic-type")
        rets = [x for x in ast.walk(f) if isinstance(x, ast.Return) and x.value is not None]
        if rets and not _always_returns(f.body):
            shapes.add("D25-value-returned-on-some-paths-only")
    for scope in [tree] + fdefs:
        body_nodes = []
        stack = list(scope.body)
        while stack:
            n = stack.pop()
            body_nodes.append(n)
            for c in ast.iter_child_nodes(n):
                if not isinstance(c, ast.FunctionDef):
                    stack.append(c)
        assigned = {}
        for n in body_nodes:
            if isinstance(n, ast.Assign):
                for t in n.targets:
                    if isinstance(t, ast.Name):
                        assigned.setdefault(t.id, []).append(n)
            elif isinstance(n, ast.AugAssign) and isinstance(n.target, ast.Name):
                assigned.setdefault(n.target.id, []).append(n)
        params = {a.arg for a in scope.args.args} if isinstance(scope, ast.FunctionDef) else set()
        for n in body_nodes:
            if isinstance(n, ast.For) and isinstance(n.target, ast.Name):
                if n.target.id in assigned or n.target.id in params:
                    shapes.add("D3-loop-target-bound-elsewhere")
                is_list = not (isinstance(n.iter, ast.Call) and isinstance(n.iter.func, ast.Name) and n.iter.func.id == "range")
                if is_list:
                    for c in ast.walk(n):
                        if c is not n and isinstance(c, ast.For):
                            shapes.add("D20-call-or-loop-in-list-loop-body")
                        if isinstance(c, ast.Call) and isinstance(c.func, (ast.Name, ast.Attribute)):
                            nm = c.func.id if isinstance(c.func, ast.Name) else c.func.attr
                            if nm in {f.name for f in ast.walk(tree) if isinstance(f, ast.FunctionDef)}:
                                shapes.add("D20-call-or-loop-in-list-loop-body")
            if isinstance(n, ast.Assign) and isinstance(n.value, ast.Name) and len(n.targets) == 1 and isinstance(n.targets[0], ast.Name):
                srcname = n.value.id
                tgt = n.targets[0].id
                reads = {}
                for x in body_nodes:
                    if isinstance(x, ast.Name) and isinstance(x.ctx, ast.Load):
                        reads[x.id] = max(reads.get(x.id, 0), x.lineno)
                if len(assigned.get(tgt, [])) == 1 and reads.get(tgt, 0) > reads.get(srcname, 0):
                    shapes.add("D37-bare-copy-outlives-its-source")
                if len(assigned.get(srcname, [])) > 1 or any(isinstance(a, ast.AugAssign) for a in assigned.get(srcname, [])):
                    shapes.add("D5-bare-copy-of-rewritten-variable")
            if isinstance(n, ast.UnaryOp) and isinstance(n.op, ast.Invert):
                shapes.add("D2-bitwise-invert")
            if isinstance(n, ast.Subscript) and not isinstance(n.slice, ast.Constant):
                lst = n.value
                if isinstance(lst, ast.Name):
                    for a in assigned.get(lst.id, []):
                        if isinstance(a, ast.Assign):
                            lst = a.value
                if isinstance(lst, (ast.List, ast.Tuple)) and len(lst.elts) >= 6:
                    shapes.add("D29-const-list-len>=6-dynamic-index")
    return shapes


# ---------------------------------------------------------------- attribution

def _scoped_texts(srcs, scopes):
    """source text of the top-level functions that are, or contain, a function named like one of the
    scopes; the whole file for the module scope ''"""
    out = []
    for text in srcs.values():
        if "" in scopes:
            out.append(text)
            continue
        try:
            tree = ast.parse(text)
        except SyntaxError:
            out.append(text)
            continue
        for top in tree.body:
            if isinstance(top, ast.FunctionDef) and any(isinstance(x, ast.FunctionDef) and x.name in scopes for x in ast.walk(top)):
                seg = ast.get_source_segment(text, top)
                if seg:
                    out.append(seg)
    return out


SHAPE_PRECEDENCE = ("D36", "D37", "D5-", "D39")


def clobber_shape_suffix(srcs, signature="", clobber=None):
    """qualify a clobber signature by the shape of the open finding that can explain it: aliasing
    (D5/D37) and nested loops (D39) explain clobbers inside one scope, a nested definition (D36) any.
    Only the functions in which the clobber was written / read are looked at, and of several shapes
    present there the first in SHAPE_PRECEDENCE names the signature."""
    if "return-register-of-callee-inlined-into-called-function" in signature:
        # this relation (second face of F-D23) is decided from the hook data and names its cause completely; a nested
        # definition in the same function (F-D36's shape) does not make it another finding (met by C07's thorough tier:
        # the inlined callee was itself a nested function)
        return ""
    texts = list(srcs.values())
    if clobber and clobber.get("reader_scope") is not None:
        scopes = {clobber.get("reader_scope") or "", clobber.get("writer_scope") or ""}
        scoped = _scoped_texts(srcs, scopes)
        if scoped:
            texts = scoped
    shapes = set().union(*[source_shapes(t) for t in texts]) if texts else set()
    same = ":same-scope" in signature or signature == ""
    keep = ("D36",) + (("D37", "D39", "D5-") if same else ())
    for pre in SHAPE_PRECEDENCE:
        for sh in sorted(shapes):
            if sh.startswith(pre) and sh.startswith(keep):
                return ":" + sh
    return ""


def shape_suffix(srcs):
    shapes = sorted(set().union(*[source_shapes(t) for t in srcs.values()]))
    return "".join(":" + s for s in shapes)


def attribute(res, env_seed, pool, max_steps, K):
    """run the diagnostic monitors on the compiled code; returns a root-cause signature or None"""
    v = res.get("_verif")
    if not v:
        return None, {}
    try:
        recmap = diag.align(res["code"], v["instructions"])
    except diag.AlignError as e:
        return None, {"align": str(e)}
    m = ic10vm.Machine(res["code"], compare.make_env(env_seed, pool), tables.enum_tables(), max_steps=max_steps, max_effects=K)
    tm = diag.TagMonitor(m, recmap)
    rm = diag.RegionMonitor(m, recmap)
    try:
        m.run()
    except ic10vm.VMError:
        pass
    if rm.violations:
        x = rm.violations[0]
        if x["from_scope"] == "" and x["kind"] == "seq":
            return "C07:fallthrough:main-into-function", {"transition": x}
        return f"C07:{x['kind']}:{'main' if x['from_scope']=='' else 'function'}-into-function", {"transition": x}
    br = diag.bad_returns(m, recmap)
    if br:
        return br[0][0], {"event": list(br[0][1])}
    if tm.clobbers:
        c = tm.clobbers[0]
        return clobber_signature(c, v["instructions"]), {"clobber": c}
    return None, {}


DEVICE_FIRST_INPUT = {"l", "s", "ls", "ss", "lr", "get", "put", "getd", "putd", "clr", "clrd", "sdse", "sdns",
                      "bdse", "bdns", "brdse", "brdns", "bdseal", "bdnsal", "rmap", "bdnvl", "bdnvs"}


def is_return_register_of(instructions, vreg, scope):
    """the virtual register is written only by code of `scope` and read by code of another scope: it carries
    the value of an inlined `scope` to the function that hosts it"""
    if not instructions or not vreg:
        return False
    writers = {r.get("scope") or "" for r in instructions if r.get("out") == vreg}
    readers = {r.get("scope") or "" for r in instructions if vreg in (r.get("ins") or [])}
    return writers == {scope} and any(x != scope for x in readers)


def clobber_signature(c, instructions=None):
    """relation between the scope that wrote the register last and the scope that expected its own
    value there.  `scope` = source function of the instruction, `region` = emitted function it sits in;
    they differ exactly for inlined code."""
    op = c.get("text", "").split(" ")[0]
    if c.get("input_index") == 0 and op in DEVICE_FIRST_INPUT:
        # the clobbered operand is the device / reference-id operand of a device instruction
        return ("C04:clobber:device-id-capture:" + ("in-function" if c.get("reader_scope") else "module-level")
                + (":stack-object" if op in ("get", "put", "getd", "putd", "clr", "clrd") else ":device-object"))
    rs, ws = c.get("reader_scope") or "", c.get("writer_scope") or ""
    rr, wr = c.get("reader_region") or "", c.get("writer_region") or ""
    if rs == ws:
        rel = "same-scope"
    elif ws != wr and rr == wr:
        rel = "inlined-callee-x-caller"  # writer is inlined code sitting in the reader's emitted function
    elif rs != rr and rr == wr:
        rel = "caller-x-inlined-callee"
    elif rr != wr and ws != wr and is_return_register_of(instructions, c.get("found"), ws):
        # second face of F-D23: the return register of a function that was inlined into a *called* function is
        # coloured by source-line ranges of the enclosing scope and collides with a value of the caller
        rel = "return-register-of-callee-inlined-into-called-function-x-caller"
    elif rr != wr:
        rel = "called-function-x-caller"
    else:
        rel = "other"
    return f"C04:clobber:{rel}"


# ---------------------------------------------------------------- one differential run

def diff_run(srcs, opts, env_seed, pool, K, res=None, src_steps=20000):
    """-> dict(kind=..., ...).  kinds: reject unsupported srcerror nan vmerror inconclusive ok mismatch"""
    if res is None:
        res = compile_case(srcs, opts)
    if "error" in res:
        return {"kind": "reject", "error": res["error"].get("description", "")[:300], "res": res}
    env = compare.make_env(env_seed, pool)
    it = srcinterp.Interp(srcs, env, max_steps=src_steps, max_effects=K)
    try:
        it.run()
    except srcinterp.Unsupported as e:
        return {"kind": "unsupported", "why": str(e), "res": res}
    except srcinterp.SrcError as e:
        return {"kind": "srcerror", "why": str(e), "res": res}
    except RecursionError:
        return {"kind": "unsupported", "why": "python recursion limit", "res": res}
    if it.nan_compare:
        return {"kind": "nan", "res": res, "it": it}
    budget = compare.vm_budget(it.steps)
    m = ic10vm.Machine(res["code"], env, tables.enum_tables(), max_steps=budget, max_effects=K)
    try:
        m.run()
    except ic10vm.VMError as e:
        sig, extra = attribute(res, env_seed, pool, budget, K)
        return {"kind": "vmerror", "vmkind": e.kind, "error": str(e), "res": res, "it": it, "m": m,
                "root": sig, "root_detail": extra}
    kind, detail = compare.compare_src_vm(it, m)
    out = {"kind": kind, "detail": detail, "res": res, "it": it, "m": m}
    if kind == "mismatch":
        sig, extra = attribute(res, env_seed, pool, budget, K)
        # clobbers are qualified by the shapes of the open aliasing / nested-function findings
        if sig and sig.startswith("C04:clobber"):
            sig += clobber_shape_suffix(srcs, sig, (extra or {}).get("clobber"))
        out["root"] = sig
        out["root_detail"] = extra
    return out
