"""E1 - reference IC10 machine.

Strict interpreter for IC10 text with an effect trace and optional monitors (shadow return
stack for C06, region monitor for C07, provenance tags for C04).  Independent of the
transpiler: the only thing taken from the repository is the enum name->number table
(cross-checked by C16), passed in by the caller through `pv.tables`.
"""
import math
import re
import zlib

from . import alu

TOKEN_RE = re.compile(r"""HASH\("[^"]*"\)|STR\("[^"]*"\)|HASH\('[^']*'\)|STR\('[^']*'\)|#|\S+?(?=\s|#|$)""")
NUM_RE = re.compile(r"^[-+]?(\d+\.?\d*|\.\d+)([eE][-+]?\d+)?$")
REG_RE = re.compile(r"^r(\d+)$")
DEV_RE = re.compile(r"^d([0-5]|b)$")
BR_RE = re.compile(r"^b(r?)(eq|ne|lt|le|gt|ge)(z?)(al)?$")
BAP_RE = re.compile(r"^b(r?)(ap|na)(z?)(al)?$")


class VMError(Exception):
    def __init__(self, msg, kind="vm"):
        super().__init__(msg)
        self.kind = kind


def crc(name):
    v = zlib.crc32(name.encode())
    return float((v ^ 0x80000000) - 0x80000000)


def strpack(s):
    v = 0
    for ch in s:
        v = v << 8 | ord(ch)
    return float(v)


def tokenize(line):
    toks = []
    for m in TOKEN_RE.finditer(line):
        t = m.group(0)
        if t == "#":
            break
        toks.append(t)
    return toks


def is_label_line(toks):
    return len(toks) == 1 and toks[0].endswith(":")


class Machine:
    """state: 16 registers, ra, sp, 512 stack slots.  env(key, epoch)->float supplies reads."""

    def __init__(self, code, env, tables, max_steps=100000, max_effects=200):
        self.text_lines = code.split("\n")
        self.lines = [tokenize(l) for l in self.text_lines]
        self.labels = {}
        self.dup_labels = []
        for i, t in enumerate(self.lines):
            if is_label_line(t):
                name = t[0][:-1]
                if name in self.labels:
                    self.dup_labels.append(name)
                self.labels[name] = i
        self.plain, self.qual = tables
        self.reg = [0.0] * 16
        self.ra = 0.0
        self.sp = 0.0
        self.stack = [0.0] * 512
        self.pc = 0
        self.alias = {}
        self.defines = {}
        self.env = env
        self.trace = []
        self.steps = 0
        self.max_steps = max_steps
        self.max_effects = max_effects
        self.halted = None  # 'end' | 'steps' | 'effects' | 'hcf'
        self.reads = 0
        # monitors
        self.shadow = []  # (return_pc, sp_at_call, call_pc)
        self.ret_events = []  # (pc, target, expected_or_None, sp, sp_at_call)
        self.calls_executed = 0
        self.max_depth = 0
        self.branch_taken = 0
        self.branch_seen = 0
        self.backjumps = 0
        self.transfer_hook = None  # fn(pc, newpc, kind) kind in seq/jump/call/ret
        self.exec_hook = None  # fn(pc, tokens) before execution
        self.write_hook = None  # fn(pc, regtoken) after a register write
        self.const_cache = {}

    # ---- operands
    def _regname(self, t):
        t = self.alias.get(t, t)
        return t

    def setreg(self, t, v, pc=None):
        t = self.alias.get(t, t)
        t = {"r16": "sp", "r17": "ra"}.get(t, t)  # the game's names for sp / ra
        v = float(v)
        m = REG_RE.match(t)
        if m:
            n = int(m.group(1))
            if n > 15:
                raise VMError(f"bad register {t}", "badreg")
            self.reg[n] = v
        elif t == "sp":
            self.sp = v
        elif t == "ra":
            self.ra = v
        else:
            raise VMError(f"not a register: {t!r}", "badreg")
        if self.write_hook:
            self.write_hook(pc, t)

    def const(self, t, kind=None):
        """value of a non-register operand token, or None if it is not a constant"""
        key = (t, kind)
        c = self.const_cache.get(key)
        if c is not None:
            return c
        v = None
        if (t.startswith('HASH("') and t.endswith('")')) or (t.startswith("HASH('") and t.endswith("')")):
            v = crc(t[6:-2])
        elif (t.startswith('STR("') and t.endswith('")')) or (t.startswith("STR('") and t.endswith("')")):
            v = strpack(t[5:-2])
        elif t.startswith("$"):
            try:
                v = float(int(t[1:].replace("_", ""), 16))
            except ValueError:
                raise VMError(f"bad hex literal {t}", "badliteral")
        elif t.startswith("%"):
            try:
                v = float(int(t[1:].replace("_", ""), 2))
            except ValueError:
                raise VMError(f"bad bin literal {t}", "badliteral")
        elif NUM_RE.match(t):
            v = float(t)
        elif t in self.qual:
            v = self.qual[t]
        elif kind and t in self.plain.get(kind, {}):
            v = self.plain[kind][t]
        if v is not None:
            self.const_cache[key] = v
        return v

    def num(self, t, kind=None):
        t0 = t
        t = self.alias.get(t, t)
        if t in self.defines:
            return self.defines[t]
        t = {"r16": "sp", "r17": "ra"}.get(t, t)
        m = REG_RE.match(t)
        if m:
            n = int(m.group(1))
            if n > 15:
                if t in self.labels:
                    return float(self.labels[t])
                raise VMError(f"bad register {t}", "badreg")
            return self.reg[n]
        if t == "sp":
            return self.sp
        if t == "ra":
            return self.ra
        v = self.const(t, kind)
        if v is not None:
            return v
        if t in self.labels:
            return float(self.labels[t])
        if kind and re.match(r"^[A-Za-z_]\w*$", t):
            return t  # unknown symbolic logic type: keep symbolic (compared as text)
        raise VMError(f"cannot evaluate operand {t0!r}", "badoperand")

    def dev(self, t):
        t = self.alias.get(t, t)
        if DEV_RE.match(t):
            return ("pin", t)
        v = self.num(t)
        if isinstance(v, str):
            raise VMError(f"bad device operand {t!r}", "badoperand")
        return ("ref", v)

    def target(self, t):
        v = self.num(t)
        if isinstance(v, str) or math.isnan(v) or math.isinf(v):
            raise VMError(f"bad jump target {t}", "badtarget")
        return int(v)

    # ---- effects / reads
    def effect(self, *ev):
        self.trace.append(tuple(ev))

    def read(self, *key):
        self.reads += 1
        return float(self.env(key, len(self.trace)))

    def saddr(self, v):
        if isinstance(v, str) or math.isnan(v) or math.isinf(v):
            raise VMError("bad stack address", "stackaddr")
        a = int(v)
        if not 0 <= a < 512:
            raise VMError(f"stack address out of range {a}", "stackaddr")
        return a

    # ---- control transfer
    def goto(self, pc, new, kind):
        if new < 0 or new > len(self.lines):
            raise VMError(f"line {pc}: jump target {new} outside program", "badtarget")
        if self.transfer_hook:
            self.transfer_hook(pc, new, kind)
        if new <= pc:
            self.backjumps += 1
        self.pc = new

    def do_call(self, pc, new):
        self.ra = float(pc + 1)
        self.shadow.append((pc + 1, self.sp, pc, new))
        self.calls_executed += 1
        self.max_depth = max(self.max_depth, len(self.shadow))
        self.goto(pc, new, "call")

    def do_return(self, pc, tgt):
        # the frame being served: normally the top one; a return out of an internal subroutine
        # (list-loop body) may skip frames - the skipped call targets are reported to the monitors
        k = next((i for i in range(len(self.shadow) - 1, -1, -1) if self.shadow[i][0] == tgt), None)
        if k is None and self.shadow:
            k = len(self.shadow) - 1
        if k is not None:
            skipped = [f[3] for f in self.shadow[k + 1:]]
            exp, sp0, cpc, ctgt = self.shadow[k]
            del self.shadow[k:]
            self.ret_events.append((pc, tgt, exp, self.sp, sp0, cpc, len(self.shadow) + 1, ctgt, skipped))
        else:
            self.ret_events.append((pc, tgt, None, self.sp, None, None, 0, None, []))
        self.goto(pc, tgt, "ret")

    # ---- run
    def run(self):
        while self.halted is None:
            self.step()
        return self.trace

    def step(self):
        if self.pc >= len(self.lines):
            self.halted = "end"
            return
        if self.steps >= self.max_steps:
            self.halted = "steps"
            return
        if len(self.trace) >= self.max_effects:
            self.halted = "effects"
            return
        self.steps += 1
        t = self.lines[self.pc]
        pc = self.pc
        self.pc += 1
        if not t or is_label_line(t):
            if self.transfer_hook and self.pc <= len(self.lines):
                self.transfer_hook(pc, self.pc, "seq")
            return
        if self.exec_hook:
            self.exec_hook(pc, t)
        op, a = t[0], t[1:]
        n = self.num
        self._jumped = False

        def need(k):
            if len(a) != k:
                raise VMError(f"line {pc}: {op} expects {k} operands, got {a}", "operandcount")

        if op in alu.BIN:
            need(3)
            self.setreg(a[0], alu.BIN[op](n(a[1]), n(a[2])), pc)
        elif op in alu.UN:
            need(2)
            self.setreg(a[0], alu.UN[op](n(a[1])), pc)
        elif op == "select":
            need(4)
            self.setreg(a[0], alu.select(n(a[1]), n(a[2]), n(a[3])), pc)
        elif op == "lerp":
            need(4)
            self.setreg(a[0], alu.lerp(n(a[1]), n(a[2]), n(a[3])), pc)
        elif op in ("sap", "sna"):
            need(4)
            r = alu.sap(n(a[1]), n(a[2]), n(a[3]))
            self.setreg(a[0], r if op == "sap" else 1.0 - r, pc)
        elif op in ("sapz", "snaz"):
            need(3)
            r = alu.sap(n(a[1]), 0.0, n(a[2]))
            self.setreg(a[0], r if op == "sapz" else 1.0 - r, pc)
        elif op == "j":
            need(1)
            tgt = self.target(a[0])
            if self.alias.get(a[0], a[0]) == "ra":
                self.do_return(pc, tgt)
            else:
                self.goto(pc, tgt, "jump")
            return
        elif op == "jal":
            need(1)
            self.do_call(pc, self.target(a[0]))
            return
        elif op == "jr":
            need(1)
            self.goto(pc, pc + self.target(a[0]), "jump")
            return
        elif BR_RE.match(op):
            rel, c, z, al = BR_RE.match(op).groups()
            if z:
                need(2)
                cond = alu.CMP[c](n(a[0]), 0.0)
                tg = a[1]
            else:
                need(3)
                cond = alu.CMP[c](n(a[0]), n(a[1]))
                tg = a[2]
            self.branch_seen += 1
            if cond:
                self.branch_taken += 1
                new = pc + self.target(tg) if rel else self.target(tg)
                if al:
                    self.do_call(pc, new)
                else:
                    self.goto(pc, new, "jump")
                return
        elif BAP_RE.match(op):
            rel, c, z, al = BAP_RE.match(op).groups()
            if z:
                need(3)
                r = alu.sap(n(a[0]), 0.0, n(a[1]))
                tg = a[2]
            else:
                need(4)
                r = alu.sap(n(a[0]), n(a[1]), n(a[2]))
                tg = a[3]
            cond = (r != 0) if c == "ap" else (r == 0)
            self.branch_seen += 1
            if cond:
                self.branch_taken += 1
                new = pc + self.target(tg) if rel else self.target(tg)
                if al:
                    self.do_call(pc, new)
                else:
                    self.goto(pc, new, "jump")
                return
        elif op in ("bdse", "bdns", "brdse", "brdns", "bdseal", "bdnsal"):
            need(2)
            isset = self.read("devset", self.dev(a[0])) != 0
            cond = isset if "dse" in op else not isset
            self.branch_seen += 1
            if cond:
                self.branch_taken += 1
                new = pc + self.target(a[1]) if op.startswith("br") else self.target(a[1])
                if op.endswith("al"):
                    self.do_call(pc, new)
                else:
                    self.goto(pc, new, "jump")
                return
        elif op in ("sdse", "sdns"):
            need(2)
            isset = self.read("devset", self.dev(a[1])) != 0
            self.setreg(a[0], alu.b2f(isset if op == "sdse" else not isset), pc)
        elif op in ("bnan", "brnan"):
            need(2)
            self.branch_seen += 1
            if math.isnan(n(a[0])):
                self.branch_taken += 1
                self.goto(pc, pc + self.target(a[1]) if op == "brnan" else self.target(a[1]), "jump")
                return
        elif op == "push":
            need(1)
            self.stack[self.saddr(self.sp)] = n(a[0])
            self.sp += 1
        elif op == "pop":
            need(1)
            self.sp -= 1
            self.setreg(a[0], self.stack[self.saddr(self.sp)], pc)
        elif op == "peek":
            need(1)
            self.setreg(a[0], self.stack[self.saddr(self.sp - 1)], pc)
        elif op == "poke":
            need(2)
            self.stack[self.saddr(n(a[0]))] = n(a[1])
        elif op == "get":
            need(3)
            d = self.dev(a[1])
            if d == ("pin", "db"):
                self.setreg(a[0], self.stack[self.saddr(n(a[2]))], pc)
            else:
                self.setreg(a[0], self.read("get", d, n(a[2])), pc)
        elif op == "getd":
            need(3)
            self.setreg(a[0], self.read("get", ("ref", n(a[1])), n(a[2])), pc)
        elif op == "put":
            need(3)
            d = self.dev(a[0])
            if d == ("pin", "db"):
                self.stack[self.saddr(n(a[1]))] = n(a[2])
            else:
                self.effect("put", d, n(a[1]), n(a[2]))
        elif op == "putd":
            need(3)
            self.effect("put", ("ref", n(a[0])), n(a[1]), n(a[2]))
        elif op == "clr":
            need(1)
            d = self.dev(a[0])
            if d == ("pin", "db"):
                self.stack = [0.0] * 512
            else:
                self.effect("clr", d)
        elif op == "clrd":
            need(1)
            self.effect("clr", ("ref", n(a[0])))
        elif op == "l":
            need(3)
            self.setreg(a[0], self.read("l", self.dev(a[1]), n(a[2], "LogicType")), pc)
        elif op == "lr":
            need(4)
            self.setreg(a[0], self.read("lr", self.dev(a[1]), n(a[2], "LogicReagentMode"), n(a[3])), pc)
        elif op == "s":
            need(3)
            self.effect("s", self.dev(a[0]), n(a[1], "LogicType"), n(a[2]))
        elif op == "ls":
            need(4)
            self.setreg(a[0], self.read("ls", self.dev(a[1]), n(a[2]), n(a[3], "LogicSlotType")), pc)
        elif op == "ss":
            need(4)
            self.effect("ss", self.dev(a[0]), n(a[1]), n(a[2], "LogicSlotType"), n(a[3]))
        elif op == "lb":
            need(4)
            self.setreg(a[0], self.read("lb", n(a[1]), n(a[2], "LogicType"), n(a[3], "LogicBatchMethod")), pc)
        elif op == "lbn":
            need(5)
            self.setreg(a[0], self.read("lbn", n(a[1]), n(a[2]), n(a[3], "LogicType"), n(a[4], "LogicBatchMethod")), pc)
        elif op == "lbs":
            need(5)
            self.setreg(a[0], self.read("lbs", n(a[1]), n(a[2]), n(a[3], "LogicSlotType"), n(a[4], "LogicBatchMethod")), pc)
        elif op == "lbns":
            need(6)
            self.setreg(a[0], self.read("lbns", n(a[1]), n(a[2]), n(a[3]), n(a[4], "LogicSlotType"), n(a[5], "LogicBatchMethod")), pc)
        elif op == "sb":
            need(3)
            self.effect("sb", n(a[0]), n(a[1], "LogicType"), n(a[2]))
        elif op == "sbn":
            need(4)
            self.effect("sbn", n(a[0]), n(a[1]), n(a[2], "LogicType"), n(a[3]))
        elif op == "sbs":
            need(4)
            self.effect("sbs", n(a[0]), n(a[1]), n(a[2], "LogicSlotType"), n(a[3]))
        elif op == "yield":
            need(0)
            self.effect("yield")
        elif op == "sleep":
            need(1)
            self.effect("sleep", n(a[0]))
        elif op == "hcf":
            need(0)
            self.effect("hcf")
            self.halted = "hcf"
        elif op == "alias":
            need(2)
            self.alias[a[0]] = self.alias.get(a[1], a[1])
        elif op == "define":
            need(2)
            self.defines[a[0]] = n(a[1])
        elif op == "rand":
            need(1)
            self.setreg(a[0], self.read("rand"), pc)
        else:
            raise VMError(f"line {pc}: unknown opcode {op!r} in {t}", "badopcode")
        if self.transfer_hook:
            self.transfer_hook(pc, self.pc, "seq")
