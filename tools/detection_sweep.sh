#!/bin/sh
# tools/detection_sweep.sh : run, for every seeded change under /verif/seeded, its own property's quick check
# (plus the related checks listed in tools/seeded_related.txt) in a scratch worktree; writes seeded/RESULTS.tsv
DIR=$(cd "$(dirname "$0")/.." && pwd)
OUTF=$DIR/seeded/RESULTS.tsv
: > $OUTF
for d in $DIR/seeded/C*-*; do
  name=$(basename $d); own=${name%%-*}
  rel=$(grep "^$name " $DIR/tools/seeded_related.txt | cut -d' ' -f2-)
  for id in $own $rel; do
    r=$($DIR/tools/try_mutant.sh $d/patch.diff $id | tail -1)
    echo "$name	$id	$r" | tee -a $OUTF
  done
done
