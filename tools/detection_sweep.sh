#!/bin/sh
# tools/detection_sweep.sh [name-prefix] : run, for every seeded change under /verif/seeded (optionally only
# those whose directory name starts with the prefix, e.g. R2-), its own property's quick check plus the
# related checks listed in tools/seeded_related.txt, in a scratch worktree; rewrites those rows of
# seeded/RESULTS.tsv and then refreshes meta.json/RESULTS.json with tools/seeded_meta.py
DIR=$(cd "$(dirname "$0")/.." && pwd)
OUTF=$DIR/seeded/RESULTS.tsv
PFX=${1:-}
touch $OUTF
for d in $DIR/seeded/${PFX}*; do
  [ -f "$d/patch.diff" ] || continue
  name=$(basename $d); base=${name#R2-}; base=${base#R3-}; base=${base#R4-}; own=${base%%-*}
  grep -v "^$name	" $OUTF > $OUTF.tmp; mv $OUTF.tmp $OUTF
  rel=$(grep "^$name " $DIR/tools/seeded_related.txt | cut -d' ' -f2-)
  for id in $own $rel; do
    r=$(PV_SHRINK_CALLS=${PV_SHRINK_CALLS:-0} $DIR/tools/try_mutant.sh $d/patch.diff $id | tail -1)
    echo "$name	$id	$r" | tee -a $OUTF
  done
done
sort -o $OUTF $OUTF
python3 $DIR/tools/seeded_meta.py
