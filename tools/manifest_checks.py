add("C18", "exploration",
    "Generated JSON dictionaries (recursive values, real payload shape, size-stratified texts) are round-tripped through "
    "encode_data/decode_data and an independent decoder; exploration is the right level because the domain is unbounded "
    "and the oracle (identity) is exact.",
    "Trusts Python's json/zlib/base64; string keys, finite floats, no lone surrogates.",
    "property-based testing (Hypothesis): round-trip + independent decoder",
    "DESIGN.md section 18")
