add("C18", "exploration",
    "Generated JSON dictionaries (recursive values, real payload shape, size-stratified texts) are round-tripped through "
    "encode_data/decode_data and an independent decoder; exploration is the right level because the domain is unbounded "
    "and the oracle (identity) is exact.",
    "Trusts Python's json/zlib/base64; string keys, finite floats; lone surrogates are generated but never a high one directly followed by a low one (JSON itself merges that pair).",
    "property-based testing (Hypothesis): round-trip + independent decoder",
    "DESIGN.md section 18")
add("C01", "exploration",
    "Differential execution: generated dialect programs are run by an independent source interpreter and the emitted "
    "IC10 by an independent reference machine under the same generated device environments; effect traces must agree. "
    "Exploration (not proof) because programs x inputs x ticks is unbounded; generators cover every construct the "
    "property names and report the measured class histogram.",
    "Reference IC10 semantics (pv/ic10vm.py, pv/alu.py) and the dialect reading in pv/srcinterp.py are mine; structure/"
    "enum tables are trusted here and cross-checked by C16; open findings are excluded by construction with witnesses.",
    "property-based differential testing (Hypothesis): source interpreter vs IC10 reference machine",
    "DESIGN.md section 1")
add("C07", "exploration",
    "Generated programs with terminating top-level code and emitted functions run on the reference machine with a "
    "region monitor (hook-exported emitted-function tags): functions are entered only through calls and the machine "
    "halts after main; plus trace agreement with the source interpreter up to there.",
    "Region map comes from the PYTRAPIC_VERIF hook; known finding F-D1 is reported once, hits counted.",
    "property-based testing (Hypothesis) with a region/transition invariant monitor on the reference machine",
    "DESIGN.md section 7")
add("C02", "exploration",
    "Metamorphic/differential: the IC10 emitted under drawn (thorough: all 256) option vectors is executed on the "
    "reference machine and must produce the default vector's effect trace; no vector may be rejected for another reason "
    "than register exhaustion when the default vector compiles; 1 in 6 programs is split over library modules; a pragma "
    "arm requires textual identity between '# pytrapic:' and API-given options.",
    "Reference machine semantics are mine; vectors rejected for register exhaustion are skipped; tail-call bit restricted by the F-D11 carve-out.",
    "property-based metamorphic testing (Hypothesis): option vector vs default vector on the IC10 reference machine",
    "DESIGN.md section 2")
add("C04", "exploration",
    "Dynamic provenance check: using the virtual register names exported by the guarded hook, every register read "
    "executed on the reference machine must see the value last written for the same virtual register; generated "
    "lifetime shapes incl. >16 live locals (must be rejected with the out-of-registers error), captured device ids, "
    "programs split over library modules, and directly recursive functions (rejected today; if accepted they are judged "
    "by the reference interpreter because activations share virtual names).",
    "Needs the PYTRAPIC_VERIF hook; aliasing by design (same virtual name) is not judged here.",
    "property-based testing (Hypothesis) with a provenance-tag invariant on the reference machine",
    "DESIGN.md section 4")
add("C06", "exploration",
    "Shadow return stack on the reference machine: each executed 'j ra' must return behind the call being served "
    "with the stack pointer balanced for the calling convention; argument order and results are checked against the "
    "source interpreter; recursion must be rejected.",
    "Callee arity from the source AST and emitted-function tags from the hook; carve-outs F-D11/F-D20/F-D25.",
    "property-based testing (Hypothesis): call-graph generator + shadow-stack invariant + differential execution",
    "DESIGN.md section 6")
add("C09", "exploration",
    "Every emitted line of generated programs under drawn option vectors is validated against an independent IC10 "
    "instruction table (opcode, operand count/kind, register/device/literal grammar, no placeholders); generated "
    "literals over all finite doubles and big integers must read back as the value; version-note placement checked.",
    "Operand kinds per opcode are my reading of IC10; opcode set cross-checked against webapp/src/ic10.json.",
    "property-based testing (Hypothesis): grammar/ISA validity predicate + literal round-trip",
    "DESIGN.md section 9")
add("C05", "exploration",
    "Generated call-heavy programs with adversarial function/module identifiers: structural label check, an "
    "independent label resolver applied to the labelled output must reproduce the remove_labels output line for line, "
    "both outputs must behave alike on the reference machine with every return landing behind its call, the labelled "
    "output compiled with the comment options must pass the structural check and behave alike, and the identifier "
    "programs must produce the reference interpreter's effect trace.",
    "Identifier sets are repaired to avoid the open label-collision findings; comments off for the textual comparison.",
    "property-based metamorphic testing (Hypothesis): independent label resolver + differential execution",
    "DESIGN.md section 5")
add("C17", "exploration",
    "Independent recount of lines, CRLF byte size and distinct register tokens of every successful result of generated "
    "and degenerate programs under drawn option vectors.",
    "Generated programs never name registers explicitly; both byte and character size admitted for non-ASCII comments.",
    "property-based testing (Hypothesis): independent recomputation oracle",
    "DESIGN.md section 17")
add("C16", "exploration",
    "Complete enumeration of the finite generated tables: all structure classes and plural forms (independent CRC-32, "
    "bijection, both forms compiled), all slot properties (compiled, index compared), all intrinsic wrappers (compiled "
    "with marker arguments, compared with an independent instruction table), all enum members (ast-parsed numbers "
    "unique; verbose name and compact number compiled and compared). exhaustive=true.",
    "Internal consistency only (no game data offline); instruction output registers per pv/isa.py.",
    "exhaustive enumeration of finite tables with independent recomputation (CRC-32, ast parse) through compile_code",
    "DESIGN.md section 16")
add("C08", "exploration",
    "Compact and verbose outputs of the same source are mapped by an independent position-aware normaliser (own "
    "CRC-32/STR packing, ast-parsed enum numbers, operand kinds per opcode) to numeric instruction sequences that must "
    "be identical; all 643 enum members swept exhaustively, strings and structure classes generated.",
    "Operand kinds per opcode are mine (pv/isa.py); strings without double quotes; STR <= 6 ASCII characters.",
    "property-based metamorphic testing (Hypothesis) + exhaustive enum sweep: compact vs verbose normal form",
    "DESIGN.md section 8")
add("C03", "exploration",
    "Metamorphic pair per expression: the folded program (literal operands) and its un-folded twin (the same operands "
    "loaded from the stack) are both compiled and run on the reference machine; written values must agree, and the "
    "folder must not reject an expression whose run-time form computes finite values. Operator grid enumerated (incl. "
    "comparisons of neighbouring literals), expression trees generated.",
    "Operands restricted to the range where IC10 semantics are unambiguous; reference ALU is mine; 1e-15 relative "
    "tolerance for non-integers (16 significant digits are printed).",
    "property-based metamorphic testing (Hypothesis + enumerated operator grid): folded vs un-folded twin on the IC10 reference machine",
    "DESIGN.md section 3")
add("C13", "exploration",
    "Generated programs split over main + 1-3 library modules (aliases, colliding names, __main__ blocks, never-called "
    "functions, module-level effect statements, early returns, configuration-only libraries, library calls inside "
    "main-file functions) are rendered as modules and as one merged file; both are compiled, run on the reference machine and "
    "compared (a program accepted in one rendering must be accepted in the other), plus comparison with the source "
    "interpreter and metamorphic deletion of __main__ blocks / unused functions.",
    "Generated label numbers are canonicalised before textual comparison; imports at the top of the main file.",
    "property-based metamorphic + differential testing (Hypothesis): modular vs merged rendering",
    "DESIGN.md section 13")
add("C15", "exploration",
    "Generated directive lines (spellings, placements, unknown names, decoys, repeated options) x caller vectors; a "
    "reference parser written from the property text gives the expected option values and the result must equal the "
    "API-given compilation of the neutralised source; the subset family (256) is enumerated.",
    "Directive lines are comment lines of the main file; case-sensitive keyword.",
    "property-based testing (Hypothesis) against a reference parser + result equivalence",
    "DESIGN.md section 15")
add("C12", "exploration",
    "Generated @constexpr functions, argument expressions and call positions; the function text is executed directly by "
    "the checker and every call site's written value on the reference machine must equal it; metamorphic literal twin "
    "for 'emits no code'; main file and library may define constexpr functions of the same names; a twin program that "
    "differs only in a helper's body is compiled next in the same process; forbidden-word bodies must be rejected.",
    "Child interpreter has a 1 s limit (spurious timeouts retried, else inconclusive); results are numbers/booleans.",
    "property-based testing (Hypothesis): direct Python evaluation as reference model + metamorphic literal twin",
    "DESIGN.md section 12")
add("C10", "exploration",
    "Generated hostile inputs (arbitrary text, prefixes and single edits of valid programs, unsupported constructs, "
    "failing/printing/non-terminating constexpr bodies, option vectors as dataclass and dict): compile_code must "
    "return within a cap, raise nothing, return a well-formed verdict with consistent statistics or an in-range "
    "position, and leave no child process.",
    "Caps are CPU time of the calling process plus a generous wall-clock limit, re-firing every second; cap hits must reproduce twice; real astroid inference (no speed instrumentation). The atheris campaigns are approximately, not exactly, a function of VERIF_SEED: a violation they find is judged again from the saved case before it is reported.",
    "property-based robustness testing / fuzzing (Hypothesis; thorough tier adds two coverage-guided atheris/libFuzzer campaigns, pv/fuzz_c10.py): mutation + grammar-of-invalid-inputs + token-dictionary fuzzing with a validity-of-verdict oracle inside the target",
    "DESIGN.md section 10")
add("C11", "exploration",
    "Hypothesis rule-based state machine over one long-lived process: after every compilation the result must equal "
    "the fresh-process reference for the same (sources, option values) and every earlier result for it, and the "
    "options object / source mapping must be unchanged; requests include directive-bearing sources with shared option "
    "objects, colliding constexpr call texts, constexpr results that are lists, multi-module programs (with a library "
    "the main file does not import) and erroring sources.",
    "Fresh references come from forked copies of two template processes (two different string-hash seeds, which must "
    "agree) whose only history is one trivial compilation, cross-checked against brand-new interpreters; stack traces "
    "and memory addresses are masked.",
    "stateful / model-based property testing (Hypothesis RuleBasedStateMachine) with a fresh-process reference oracle",
    "DESIGN.md section 11")
add("C14", "exploration",
    "Generated line sequences (valid requests with markers, every class of malformed / undecodable / wrong-shape / "
    "failing request, blank lines, EXIT anywhere or EOF) are fed to the real daemon process in batch and in lock-step "
    "mode; the answers are compared with the model (one line per non-blank request, in order, base64 JSON objects, "
    "valid requests equal compile_code of that request), exit status and leftover children are checked.",
    "Input lines are UTF-8 text without CR/LF; expected results computed in the checker's process.",
    "model-based property testing (Hypothesis) of the real daemon process: sequence generator + reference model of the line protocol",
    "DESIGN.md section 14")
