#!/bin/sh
# offline setup: make sure hypothesis is importable by /venv/bin/python (install from the wheelhouse if not)
set -e
PY=/venv/bin/python
if ! $PY -c "import hypothesis" 2>/dev/null; then
  /venv/bin/pip install --no-index --find-links /opt/veriftools/wheels hypothesis
fi
$PY -c "import hypothesis, astroid; print('hypothesis', hypothesis.__version__)"
