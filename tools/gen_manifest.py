#!/usr/bin/env python3
"""Regenerate MANIFEST.json from the per-property metadata below (keeps the file valid at all times)."""
import json
import os
import subprocess

ROOT = os.path.dirname(os.path.dirname(os.path.abspath(__file__)))

CHECKS = {}


def add(pid, category, text, note, technique, design_ref, engine="pv"):
    CHECKS[pid] = {
        "property_id": pid,
        "quick_cmd": f"./check {pid} --tier quick",
        "thorough_cmd": f"./check {pid} --tier thorough",
        "evidence_file": f"evidence/{pid}.json",
        "replay_cmd_template": f"./check {pid} --replay {{path}}",
        "engine": engine,
        "level_claimed": {"category": category, "text": text, "design_ref": design_ref},
        "level_note": note,
        "technique": technique,
    }


exec(open(os.path.join(ROOT, "tools", "manifest_checks.py")).read())

props = [json.loads(l)["id"] for l in open(os.path.join(ROOT, "properties.jsonl"))]
try:
    commits = subprocess.run(["git", "-C", "/repo", "log", "--format=%h %s", "c5dd0fe..HEAD"], capture_output=True, text=True).stdout.strip().splitlines()
except Exception:
    commits = []
hook_commits = [c for c in commits if "PYTRAPIC_VERIF" in c]

manifest = {
    "version": 1,
    "setup_cmd": "sh tools/setup.sh",
    "hooks": {
        "guard": "PYTRAPIC_VERIF",
        "enable": "environment variable PYTRAPIC_VERIF=1 (set by ./check); pure Python, nothing to build",
        "baseline_off_cmd": "cd /repo && env -u PYTRAPIC_VERIF /venv/bin/python -m pytest -ra -q -p no:cacheprovider --timeout=900 --continue-on-collection-errors",
        "source_commits": [c.split()[0] for c in hook_commits],
        "add_only": True,
    },
    "engines": [
        {"name": "pv", "path": "pv/", "serves_properties": sorted(CHECKS),
         "kind_free_text": "Hypothesis-driven property-based testing: reference IC10 machine (pv/ic10vm.py), reference "
                           "interpreter of the source dialect (pv/srcinterp.py), pure device environment, program "
                           "generators (pv/gen), per-property oracles (pv/props)"},
    ],
    "checks": [CHECKS[p] for p in props if p in CHECKS],
    "not_applicable": [
        {"property_id": p, "reason": "check not built yet in this session (planned, see DESIGN.md)"}
        for p in props if p not in CHECKS
    ],
    "notes": "All checks: ./check <ID> --tier quick|thorough; VERIF_SEED selects the Hypothesis seed; exit 0/1/2 = held / "
             "violation / harness error. Known findings: known_findings.json.",
}
with open(os.path.join(ROOT, "MANIFEST.json"), "w") as f:
    json.dump(manifest, f, indent=1)
print("checks:", sorted(CHECKS), "not_applicable:", [p for p in props if p not in CHECKS])
