#!/venv/bin/python
"""(Re)create the witness files under known/ from the literal cases below and show what each
replays to on the current tree.  Run by hand when a finding is added: ./tools/make_witnesses.py"""
import importlib
import json
import os
import sys

ROOT = os.path.dirname(os.path.dirname(os.path.abspath(__file__)))
sys.path.insert(0, ROOT)
sys.path.insert(0, os.path.join(os.environ.get("PV_REPO", "/repo"), "src"))
os.environ["PYTRAPIC_VERIF"] = "1"
HDR = "from stationeers_pytrapic.symbols import *\n"
POOL = [0.0, 1.0, 2.0, 3.0, -1.0, 0.5, 5.0, 10.0, 100.0, -7.0, 0.25, 4.0, 6.0, 7.0, 20.0, 1000.0]

W = {}


def prog(wid, prop, src, **extra):
    case = {"src": {"": HDR + src}, "env_seeds": [1, 2, 3], "pool": POOL}
    case.update(extra)
    W[wid] = (prop, case)


def raw(wid, prop, case):
    W[wid] = (prop, case)


exec(open(os.path.join(ROOT, "tools", "witness_cases.py")).read())

for wid, (prop, case) in sorted(W.items()):
    path = os.path.join(ROOT, "known", wid + ".json")
    with open(path, "w") as f:
        json.dump({"property": prop, "case": case}, f, indent=1)
    mod = importlib.import_module(f"pv.props.{prop.lower()}")
    res = mod.replay(case)
    print(wid, prop, res["kind"], res.get("signature"))
