#!/usr/bin/env python3
"""seeded/RESULTS.tsv -> seeded/RESULTS.json and the 'checks_run' entry of every seeded/<id>/meta.json"""
import json
import os
import re

ROOT = os.path.dirname(os.path.dirname(os.path.abspath(__file__)))
rows = {}
for line in open(os.path.join(ROOT, "seeded", "RESULTS.tsv")):
    parts = line.rstrip("\n").split("\t")
    if len(parts) < 3:
        continue
    name, check, res = parts[0], parts[1], parts[2]
    m = re.search(r"exit=(\d+)", res)
    sigs = sorted(set(s.strip() for s in re.findall(r"signature: (\S+)", res)))
    rows.setdefault(name, []).append({"check": check, "tier": "quick", "seed": 1, "detected": bool(m and m.group(1) == "1"), "signatures": sigs})
out = {}
for name, runs in sorted(rows.items()):
    mp = os.path.join(ROOT, "seeded", name, "meta.json")
    if not os.path.exists(mp):
        continue
    meta = json.load(open(mp))
    meta["checks_run"] = runs
    base = name[3:] if name.startswith(("R2-", "R3-", "R4-")) else name
    meta["breaks_property"] = base.split("-")[0]
    meta.setdefault("confirmed", {"patch_applies_to_repo_head": True, "demo_exit_patched": 1, "demo_exit_clean": 0,
                                  "how": "tools/verify_seeded.sh <dir> in a scratch worktree (PV_SRC=<worktree>/src python demo.py; git apply; pytest)"})
    json.dump(meta, open(mp, "w"), indent=1)
    out[name] = {"own_check_detects": any(r["detected"] for r in runs if r["check"] == meta["breaks_property"]),
                 "detected_by": [r["check"] for r in runs if r["detected"]], "runs": runs}
json.dump(out, open(os.path.join(ROOT, "seeded", "RESULTS.json"), "w"), indent=1)
print(sum(1 for v in out.values() if v["own_check_detects"]), "of", len(out), "detected by their own property's quick check;",
      [k for k, v in out.items() if not v["own_check_detects"]], "not")
