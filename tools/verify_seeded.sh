#!/bin/sh
# tools/verify_seeded.sh <dir with patch.diff demo.py>  [tests]  - confirm a seeded change in a scratch worktree
D=$1; WT=${PV_MUT_WT:-/tmp/wt/mut}
[ -d "$WT" ] || git -C /repo worktree add -q --detach "$WT" HEAD
git -C "$WT" checkout -q --detach "$(git -C /repo rev-parse HEAD)" 2>/dev/null
git -C "$WT" checkout -- . && git -C "$WT" clean -fdq
cp /repo/src/stationeers_pytrapic/_version.py "$WT/src/stationeers_pytrapic/_version.py"
PV_SRC=$WT/src PYTHONPATH=$WT/src timeout 600 /venv/bin/python "$D/demo.py" >/tmp/w/demo_clean.log 2>&1; echo "demo on clean tree: exit=$?"
git -C "$WT" apply "$D/patch.diff" || { echo "PATCH DOES NOT APPLY"; exit 2; }
PV_SRC=$WT/src PYTHONPATH=$WT/src timeout 600 /venv/bin/python "$D/demo.py" >/tmp/w/demo_patched.log 2>&1; echo "demo on patched tree: exit=$?"
if [ "${2:-}" = "tests" ]; then (cd "$WT" && PYTHONPATH=$WT/src timeout 900 /venv/bin/python -m pytest -q -p no:cacheprovider 2>&1 | tail -3); fi
git -C "$WT" checkout -- . && git -C "$WT" clean -fdq
