# literal witness cases of the known findings (see known_findings.json)
prog("D1-fallthrough", "C07", """
def f(a):
    db.Setting = a
f(1)
f(2)
""")
prog("D3-loop-target-bound", "C01", """
i = db.Setting
d1.Setting = i
def g(a):
    db.Setting = a
while True:
    for i in range(3):
        g(i)
        g(i)
    yield_()
""")
prog("D5-alias", "C01", """
while True:
    b = d0.Setting
    a = b
    b += 1
    db.Setting = a
    d1.Setting = b
    yield_()
""")
prog("D23-inlined-return-register", "C01", """
g0 = 0
def f0(p00):
    stack[3] = stack[3]
    return (p00 + p00)
def f1():
    db.Setting = f0(g0)
    stack[3] = g0
    return g0
while True:
    for i1 in range(3):
        stack[3] = (g0 + g0)
        db.Setting = f1()
    yield_()
""")
prog("D29-jump-table", "C01", """
while True:
    db.Setting = [90, 91, 92, 93, 94, 95, 96][min(max(d0.Setting, 0), 6)]
    yield_()
""", pool=[0.0, 1.0, 2.0, 3.0, 4.0, 5.0, 6.0])
prog("D10-device-id-capture", "C04", """
def work(a):
    id0 = d0.ReferenceId
    o0 = Device(ref_id=id0)
    d5.Setting = o0.On
    d5.Setting = o0.On
    db.Setting = o0.On + o0.Lock
while True:
    work(d3.Setting + 0)
    work(d3.Setting + 1)
    yield_()
""", pool=[1.0, 2.0, 3.0, 5.0, 8.0, 13.0])
raw("D2-invert", "C09", {"kind": "program", "src": {"": HDR + "x = d0.Setting\ndb.Setting = ~x\n"}, "opts": {}})
raw("D18-bdns", "C16", {"family": "intrinsic", "name": "bdns"})
