# literal witness cases of the known findings (see known_findings.json)
prog("D1-fallthrough", "C07", """
def f(a):
    db.Setting = a
f(1)
f(2)
""")
prog("D3-loop-target-bound", "C01", """
i = db.Setting
d1.Setting = i
def g(a):
    db.Setting = a
while True:
    for i in range(3):
        g(i)
        g(i)
    yield_()
""")
prog("D5-alias", "C01", """
while True:
    b = d0.Setting
    a = b
    b += 1
    db.Setting = a
    d1.Setting = b
    yield_()
""")
prog("D23-inlined-return-register", "C01", """
g0 = 0
def f0(p00):
    stack[3] = stack[3]
    return (p00 + p00)
def f1():
    db.Setting = f0(g0)
    stack[3] = g0
    return g0
while True:
    for i1 in range(3):
        stack[3] = (g0 + g0)
        db.Setting = f1()
    yield_()
""")
prog("D29-jump-table", "C01", """
while True:
    db.Setting = [90, 91, 92, 93, 94, 95, 96][min(max(d0.Setting, 0), 6)]
    yield_()
""", pool=[0.0, 1.0, 2.0, 3.0, 4.0, 5.0, 6.0])
prog("D10-device-id-capture", "C04", """
def work(a):
    id0 = d0.ReferenceId
    o0 = Device(ref_id=id0)
    d5.Setting = o0.On
    d5.Setting = o0.On
    db.Setting = o0.On + o0.Lock
while True:
    work(d3.Setting + 0)
    work(d3.Setting + 1)
    yield_()
""", pool=[1.0, 2.0, 3.0, 5.0, 8.0, 13.0])
raw("D2-invert", "C09", {"kind": "program", "src": {"": HDR + "x = d0.Setting\ndb.Setting = ~x\n"}, "opts": {}})
raw("D18-bdns", "C16", {"family": "intrinsic", "name": "bdns"})
raw("D26-library-constexpr", "C12", {'funcs': ['def cx0(a, b, c):\n    x = a\n    y = a * 2 + 1\n    x = (x << 2) | 0\n    return x', 'def cx1(a, b, c):\n    x = a\n    y = a * 2 + 1\n    x = (x << 1) | 0\n    x = x + len(c) + (HASH(c) & 1023)\n    x = (x << 1) | 0\n    x = (x << 1) | 0\n    return x', 'def cx2(a, b):\n    x = a\n    y = a * 2 + 1\n    y = y + cx0(a=0, b=0, c=0)\n    n = 0\n    while x > 10 and n < 20:\n        x = x >> 1\n        n += 1\n    y += n\n    return x'], 'infos': [{'name': 'cx0', 'params': ['a', 'b', 'c'], 'kinds': ['int', 'int', 'int'], 'defaults': {}, 'shape': {'branch': False, 'loop': False}, 'call_int': 'cx0(a=0, b=0, c=0)'}, {'name': 'cx1', 'params': ['a', 'b', 'c'], 'kinds': ['int', 'int', 'str'], 'defaults': {}, 'shape': {'branch': False, 'loop': False}, 'call_int': "cx1(a=0, b=0, c='x y')"}, {'name': 'cx2', 'params': ['a', 'b'], 'kinds': ['int', 'num'], 'defaults': {}, 'shape': {'branch': False, 'loop': True}, 'call_int': 'cx2(a=0, b=0.5)'}], 'calls': [{'text': 'cl.cx2(a=0, b=0.5)', 'func': 'cx2', 'nondefault': True, 'pos': 0}], 'in_lib': True, 'opts': {}})
raw("D7b-nonboolean-and", "C03", {"kind": "trees", "style": 0, "rendered": [["({0} and {1})", ["1", "2"]]]})
prog("D11-tail-call-after-call", "C06", """
def inner(a):
    db.Setting = a
def outer(b):
    inner(b)
    inner(b + 1)
while True:
    outer(1)
    outer(5)
    yield_()
""", opts={"tail_call_optimization": True}, force_tco=True)
raw("D13-duplicate-label", "C05", {"src": {"": HDR + "def f(a):\n    if a > 1:\n        return\n    db.Setting = a\ndef fend(a):\n    d1.Setting = a\nwhile True:\n    f(1)\n    f(2)\n    fend(3)\n    fend(4)\n    yield_()\n"},
    "env_seeds": [1], "pool": POOL, "opts": {"inline_functions": False}, "names": ["f", "fend"]})
prog("D20-call-in-list-loop", "C06", """
def show(a):
    db.Setting = a
while True:
    for v in [1, 2, 5]:
        show(v)
        show(v + 1)
    yield_()
""", opts={})
prog("D25-partial-return", "C06", """
def pick(a):
    if a > 2:
        return a
    db.Setting = a
while True:
    d1.Setting = pick(d0.Setting)
    d1.Setting = pick(1)
    yield_()
""", opts={"use_push_pop_functions": True, "inline_functions": False})
raw("D28-function-named-like-logic-type", "C05", {"src": {"": HDR + "def Setting():\n    db.Setting = d0.Setting\nwhile True:\n    Setting()\n    Setting()\n    yield_()\n"},
    "env_seeds": [1], "pool": POOL, "opts": {}, "names": ["Setting"]})
# ---- regression witnesses of repaired defects (status "fixed: ..."): these must pass
raw("FX-D6-bool-spelling", "C09", {"kind": "program", "src": {"": HDR + "db.Setting = not 0\nd1.Setting = not 5\n"}, "opts": {}})
raw("FX-D7-or-folded-as-and", "C03", {"kind": "trees", "style": 0, "rendered": [["({0} or {1})", ["0", "1"]], ["({0} or {1})", ["1", "0"]]]})
prog("FX-D8-if-not-constant", "C01", """
while True:
    if not (0.5 > -10):
        db.Setting = 1
    else:
        db.Setting = 2
    yield_()
""")
prog("FX-D4-continue-in-for-range", "C01", """
while True:
    for i in range(3):
        if d0.On > 0:
            continue
        db.Setting = i
    yield_()
""")
prog("FX-D27-break-continue-in-list-loop", "C01", """
while True:
    for v in [1, 2, 5]:
        if d0.On > 1:
            continue
        if d1.On > 5:
            break
        db.Setting = v
    yield_()
""")
prog("FX-D9-registerless-intermediate", "C04", """
g = d0.Setting
def f0(a):
    b = a + d1.Setting
    c = b * 2
    db.Setting = c
def f1():
    f0(1)
    f0(2)
while True:
    f1()
    f1()
    db.Setting = g
    yield_()
""", opts={})
raw("FX-D12-label-substring", "C05", {"src": {"": HDR + "def update():\n    db.Setting = d0.Setting\ndef update_display():\n    d1.Setting = HASH(\"update\")\n    update()\n    update()\nwhile True:\n    update_display()\n    update_display()\n    yield_()\n"},
    "env_seeds": [1], "pool": POOL, "opts": {}, "names": ["update", "update_display"]})
raw("FX-D14-constexpr-child-left", "C10", {"src": HDR + "@constexpr\ndef cx(a):\n    while True:\n        pass\n    return a\nd0.Setting = cx(1)\n", "opts": None, "family": "constexpr-body", "constexpr_calls": 1})
raw("FX-D15-directive-mutates-options", "C15", {"src": "# pytrapic: compact, no-append-version, __class__, __doc__\n" + HDR + "db.Setting = LogicType.Setting\n", "caller_bits": 16, "ndirectives": 1})
raw("FX-D16-empty-program", "C17", {"src": {"": ""}, "opts": {}})
prog("FX-D30-break-in-if", "C01", """
while True:
    yield_()
    if d0.On > 0:
        db.Setting = 1
    else:
        db.Setting = 3
        break
    db.Setting = 2
db.Setting = 9
""")
prog("FX-D31-not-sdse", "C01", """
while True:
    if not sdse(d0):
        db.Setting = 1
    else:
        db.Setting = 2
    yield_()
""", pool=[0.0, 1.0])
raw("FX-D32-module-function-pop-ra", "C06", {"src": {"": HDR + "from library import tm\nwhile True:\n    tm.w(3, 4)\n    tm.w(3, 4)\n    tm.endx()\n    tm.endx()\n    yield_()\n",
    "tm": HDR + "def w(p0, p1):\n    d2.Setting = 102 + p0\ndef endx():\n    d3.Setting = 103\n    w(7, 8)\n"},
    "env_seeds": [1], "pool": POOL, "opts": {"use_push_pop_functions": True, "inline_functions": False}})
raw("FX-D33-local-named-like-module", "C09", {"kind": "program", "src": {"": HDR + "from library import e\ndef w(p0):\n    for e in [1, 2, 5]:\n        d2.Setting = e + p0\nwhile True:\n    w(3)\n    w(4)\n    db.Setting = e.r1x(3)\n    yield_()\n",
    "e": HDR + "def r1x(p0):\n    return 4 + d5.Setting\n"}, "opts": {}})
_MG_MAIN = HDR + "from library import m1\nfrom library import lib\nfrom library import util\ncnt = 0\nacc = 0\ndef bump():\n    d1.Setting = cnt + 1\nwhile True:\n    db.Setting = m1.getv()\n    yield_()\n"
_MG_M1 = HDR + "cnt = 0\nacc = 0\ndef bump():\n    global acc\n    d2.Setting = cnt + 2\n    acc = acc + 1\n    d2.Setting = acc + 2\ndef getv():\n    bump()\n    bump()\n    return cnt + 3\n"
_MG_LIB = HDR + "cnt = 0\ndef bump():\n    d4.Setting = cnt + 4\ndef getv():\n    d5.Setting = cnt + 5\n"
_MG_UTIL = HDR + "cnt = 0\ndef bump():\n    d0.Setting = cnt + 6\n"
_MG_B = HDR + "m1_cnt = 0\nm1_acc = 0\ndef m1_bump():\n    global m1_acc\n    d2.Setting = m1_cnt + 2\n    m1_acc = m1_acc + 1\n    d2.Setting = m1_acc + 2\ndef m1_getv():\n    m1_bump()\n    m1_bump()\n    return m1_cnt + 3\nlib_cnt = 0\nutil_cnt = 0\ncnt = 0\nacc = 0\nwhile True:\n    db.Setting = m1_getv()\n    yield_()\n"
raw("FX-module-global-lifetime", "C13", {"A": {"": _MG_MAIN, "m1": _MG_M1, "lib": _MG_LIB, "util": _MG_UTIL}, "B": _MG_B, "opts": {}})
raw("FX-D35-falsy-constant", "C09", {"kind": "program", "src": {"": HDR + "k = [0, 1][0]\nd1.Setting = k + 1\ndb.Setting = k\n"}, "opts": {}})
raw("STRFOLD", "C08", {"src": {"": HDR + "db.Setting = STR('0') + 1\n"}, "opts": {}, "family": "strings"})
prog("D36-nested-def", "C04", """
g0 = d0.Setting
def f1():
    def in1(q1):
        stack[3] = q1
        return (q1 * stack[3])
    db.Setting = (0 + (g0 + g0))
    db.Setting = in1(in1((g0 / 2))) + 1
    return g0
while True:
    d1.Setting = f1()
    yield_()
""", opts={})
prog("D37-alias-outlives-source", "C04", """
def f0():
    db.Setting = d0.Setting
def f2(p20):
    t3 = p20
    if p20 < 3:
        db.Setting = p20
        return
    if t3 < d0.Setting:
        return
    f0()
while True:
    f2(d1.Setting)
    f2(3)
    yield_()
""", opts={})
raw("FX-D38-bool-constant-propagated", "C09", {"kind": "program", "src": {"": HDR + "g0 = 0\ndef f1(p10, p11):\n    v1 = (-p10)\n    db.Setting = v1 + p10\nv3 = (g0 < g0)\nf1(v3, g0)\nd1.Setting = v3\n"}, "opts": {}})
prog("D39-nested-loops", "C04", """
def f0(p00, p01):
    c1 = 0
    while c1 < 2:
        c1 += 1
        c2 = 0
        while c2 < 2:
            c2 += 1
            stack[3] = p00
        c3 = 0
        while c3 < 2:
            c3 += 1
            stack[3] = max(stack[3], (select(p01 < stack[3], p01, 0) / 2))
    return p01
while True:
    db.Setting = f0(0, f0(0, 0))
    yield_()
""", opts={})
raw("FX-D41-hash-colon-hash", "C08", {"src": {"": HDR + "db.Setting = HASH('0:#')\nd1.Setting = HASH(\"room: #2\")\n"}, "opts": {"remove_labels": True, "inline_functions": False}, "family": "strings"})
raw("FX-D42-source-comments-of-library-lines", "C02", {"src": {
    "": HDR + "from library import a as am\nwhile True:\n    am.a()\n    yield_()\n",
    "a": HDR + "def a():\n    d1.Setting = 101\n    if d0.On > 1:\n        d1.Mode = 1\n    else:\n        d1.Mode = -1\n"},
    "env_seeds": [1], "pool": POOL, "vectors": [1, 3], "pragma_vectors": [], "no_tco": True})
raw("FX-D43-tail-call-option-and-builtin-last-statement", "C02", {"src": {
    "": HDR + "def f(a):\n    db.Setting = a\n    yield_()\ndef g(a):\n    d1.Setting = a\n    sb(HASH(\"StructureWallLight\"), LogicType.On, 1)\nwhile True:\n    f(1)\n    f(2)\n    g(3)\n    g(4)\n"},
    "env_seeds": [1], "pool": POOL, "vectors": [64, 68], "pragma_vectors": []})
raw("FX-D44-library-call-inside-main-function", "C13", {
    "A": {"": HDR + "from library import m\ndef f(a):\n    m.g(a + 1)\nwhile True:\n    f(1)\n    f(2)\n    yield_()\n", "m": HDR + "def g(a):\n    d1.Setting = a\n"},
    "B": HDR + "def m_g(a):\n    d1.Setting = a\ndef f(a):\n    m_g(a + 1)\nwhile True:\n    f(1)\n    f(2)\n    yield_()\n", "opts": {}})
raw("FX-D45-library-without-functions-or-registers", "C13", {
    "A": {"": HDR + "from library import cfg\ndef f(a):\n    db.Setting = a\nwhile True:\n    f(1)\n    f(2)\n    yield_()\n", "cfg": HDR + "d1.Setting = 5\nd2.On = 1\n"},
    "B": HDR + "d1.Setting = 5\nd2.On = 1\ndef f(a):\n    db.Setting = a\nwhile True:\n    f(1)\n    f(2)\n    yield_()\n", "opts": {}})
_lib46 = HDR + "x = d0.Setting\ndef f():\n    global x\n    x += 1\n    d1.Setting = x\n"
raw("FX-D46-register-numbers-depend-on-hash-seed", "C11", {"sources": {
    "": HDR + "from library import alpha\nfrom library import beta\nfrom library import gamma\nwhile True:\n    alpha.f()\n    beta.f()\n    gamma.f()\n    yield_()\n",
    "alpha": _lib46, "beta": _lib46, "gamma": _lib46},
    "options": {"original_code_as_comment": False, "generated_comments": False, "inline_functions": True, "remove_labels": False, "append_version": True,
                "compact": False, "tail_call_optimization": False, "use_push_pop_functions": False},
    "history": None, "hash_seeds": [1, 2]})
prog("D23b-inlined-return-register-in-called-function", "C04", """
def inner(p0):
    return 4
def callee():
    d5.Setting = inner(1)
d2.Setting = d1.Setting + 10
def outer(p0):
    callee()
    return p0 + 1
while True:
    db.Setting = outer(d4.Setting)
    callee()
    yield_()
""")
prog("FX-D47-pop-ra-before-push-ra", "C06", """
cnt = 10
def bump():
    return d0.Setting + 4
def getv(p0):
    if cnt > 4:
        return
    d5.Setting = bump()
    d5.Setting = bump()
while True:
    getv(1)
    d1.Setting = bump()
    yield_()
""", opts={"use_push_pop_functions": True, "inline_functions": False})
raw("D25c-dead-return-emits-None", "C09", {"kind": "program", "src": {"": HDR + "def f0():\n    stack[3] = 0\n    if 0 < 0:\n        return 0\n    hcf()\nwhile True:\n    db.Setting = f0()\n    yield_()\n"},
    "opts": {"inline_functions": False}})
