# literal witness cases of the known findings (see known_findings.json)
prog("D1-fallthrough", "C07", """
def f(a):
    db.Setting = a
f(1)
f(2)
""")
prog("D3-loop-target-bound", "C01", """
i = db.Setting
d1.Setting = i
def g(a):
    db.Setting = a
while True:
    for i in range(3):
        g(i)
        g(i)
    yield_()
""")
prog("D5-alias", "C01", """
while True:
    b = d0.Setting
    a = b
    b += 1
    db.Setting = a
    d1.Setting = b
    yield_()
""")
prog("D23-inlined-return-register", "C01", """
g0 = 0
def f0(p00):
    stack[3] = stack[3]
    return (p00 + p00)
def f1():
    db.Setting = f0(g0)
    stack[3] = g0
    return g0
while True:
    for i1 in range(3):
        stack[3] = (g0 + g0)
        db.Setting = f1()
    yield_()
""")
prog("D29-jump-table", "C01", """
while True:
    db.Setting = [90, 91, 92, 93, 94, 95, 96][min(max(d0.Setting, 0), 6)]
    yield_()
""", pool=[0.0, 1.0, 2.0, 3.0, 4.0, 5.0, 6.0])
prog("D10-device-id-capture", "C04", """
def work(a):
    id0 = d0.ReferenceId
    o0 = Device(ref_id=id0)
    d5.Setting = o0.On
    d5.Setting = o0.On
    db.Setting = o0.On + o0.Lock
while True:
    work(d3.Setting + 0)
    work(d3.Setting + 1)
    yield_()
""", pool=[1.0, 2.0, 3.0, 5.0, 8.0, 13.0])
raw("D2-invert", "C09", {"kind": "program", "src": {"": HDR + "x = d0.Setting\ndb.Setting = ~x\n"}, "opts": {}})
raw("D18-bdns", "C16", {"family": "intrinsic", "name": "bdns"})
raw("D26-library-constexpr", "C12", {'funcs': ['def cx0(a, b, c):\n    x = a\n    y = a * 2 + 1\n    x = (x << 2) | 0\n    return x', 'def cx1(a, b, c):\n    x = a\n    y = a * 2 + 1\n    x = (x << 1) | 0\n    x = x + len(c) + (HASH(c) & 1023)\n    x = (x << 1) | 0\n    x = (x << 1) | 0\n    return x', 'def cx2(a, b):\n    x = a\n    y = a * 2 + 1\n    y = y + cx0(a=0, b=0, c=0)\n    n = 0\n    while x > 10 and n < 20:\n        x = x >> 1\n        n += 1\n    y += n\n    return x'], 'infos': [{'name': 'cx0', 'params': ['a', 'b', 'c'], 'kinds': ['int', 'int', 'int'], 'defaults': {}, 'shape': {'branch': False, 'loop': False}, 'call_int': 'cx0(a=0, b=0, c=0)'}, {'name': 'cx1', 'params': ['a', 'b', 'c'], 'kinds': ['int', 'int', 'str'], 'defaults': {}, 'shape': {'branch': False, 'loop': False}, 'call_int': "cx1(a=0, b=0, c='x y')"}, {'name': 'cx2', 'params': ['a', 'b'], 'kinds': ['int', 'num'], 'defaults': {}, 'shape': {'branch': False, 'loop': True}, 'call_int': 'cx2(a=0, b=0.5)'}], 'calls': [{'text': 'cl.cx2(a=0, b=0.5)', 'func': 'cx2', 'nondefault': True, 'pos': 0}], 'in_lib': True, 'opts': {}})
raw("D7b-nonboolean-and", "C03", {"kind": "trees", "style": 0, "rendered": [["({0} and {1})", ["1", "2"]]]})
prog("D11-tail-call-after-call", "C06", """
def inner(a):
    db.Setting = a
def outer(b):
    inner(b)
    inner(b + 1)
while True:
    outer(1)
    outer(5)
    yield_()
""", opts={"tail_call_optimization": True}, force_tco=True)
raw("D13-duplicate-label", "C05", {"src": {"": HDR + "def f(a):\n    if a > 1:\n        return\n    db.Setting = a\ndef fend(a):\n    d1.Setting = a\nwhile True:\n    f(1)\n    f(2)\n    fend(3)\n    fend(4)\n    yield_()\n"},
    "env_seeds": [1], "pool": POOL, "opts": {"inline_functions": False}, "names": ["f", "fend"]})
prog("D20-call-in-list-loop", "C06", """
def show(a):
    db.Setting = a
while True:
    for v in [1, 2, 5]:
        show(v)
        show(v + 1)
    yield_()
""", opts={})
prog("D25-partial-return", "C06", """
def pick(a):
    if a > 2:
        return a
    db.Setting = a
while True:
    d1.Setting = pick(d0.Setting)
    d1.Setting = pick(1)
    yield_()
""", opts={"use_push_pop_functions": True, "inline_functions": False})
raw("D28-function-named-like-logic-type", "C05", {"src": {"": HDR + "def Setting():\n    db.Setting = d0.Setting\nwhile True:\n    Setting()\n    Setting()\n    yield_()\n"},
    "env_seeds": [1], "pool": POOL, "opts": {}, "names": ["Setting"]})
