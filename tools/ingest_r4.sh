#!/bin/sh
# tools/ingest_r4.sh <ID> <A|B> : confirm a round-4 change delivered under /tmp/r4/<ID>/<X> (demo clean 0 / patched 1,
# test suite with the patch), then copy it to seeded/R4-<ID>-<X>/ with a meta.json built from the agent's notes
ID=$1; X=$2; SRC=/tmp/r4/$ID/$X; DIR=$(cd "$(dirname "$0")/.." && pwd); DST=$DIR/seeded/R4-$ID-$X
[ -f $SRC/patch.diff ] && [ -f $SRC/demo.py ] || { echo "incomplete $SRC"; exit 2; }
export PV_MUT_WT=${PV_MUT_WT:-/tmp/wt/mut}
R=$($DIR/tools/verify_seeded.sh $SRC tests 2>&1); echo "$R"
echo "$R" | grep -q "demo on clean tree: exit=0" || { echo "REJECT: demo fails on clean tree"; exit 1; }
echo "$R" | grep -q "demo on patched tree: exit=1" || { echo "REJECT: demo does not fail with patch"; exit 1; }
mkdir -p $DST; cp $SRC/patch.diff $SRC/demo.py $DST/; [ -f $SRC/notes.md ] && cp $SRC/notes.md $DST/
TESTS=$(echo "$R" | tail -1)
python3 - "$ID" "$DST" "$TESTS" <<'P'
import json,sys,os,re
pid,dst,tests=sys.argv[1:4]
notes=open(os.path.join(dst,'notes.md')).read() if os.path.exists(os.path.join(dst,'notes.md')) else ''
files=sorted(set(re.findall(r'^\+\+\+ b/(\S+)',open(os.path.join(dst,'patch.diff')).read(),re.M)))
meta={"property":pid,"breaks_property":pid,"summary":notes[:1500],"needs":"see notes.md","demo_cmd":"PV_SRC=<source root> /venv/bin/python demo.py","files":files,
 "confirmed":{"patch_applies_to_repo_head":True,"demo_exit_patched":1,"demo_exit_clean":0,"tests_with_patch":tests,
 "how":"tools/ingest_r4.sh (tools/verify_seeded.sh <dir> tests in a scratch worktree: PV_SRC=<worktree>/src python demo.py; git apply; pytest)"}}
json.dump(meta,open(os.path.join(dst,'meta.json'),'w'),indent=1)
P
echo "ingested $DST ($TESTS)"
