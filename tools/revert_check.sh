#!/bin/sh
# tools/revert_check.sh : for every "fixed:" entry of known_findings.json check out the commit BEFORE its fix in a
# scratch worktree and replay the entry's witness there: it must be reported as a violation again
DIR=$(cd "$(dirname "$0")/.." && pwd)
WT=${PV_MUT_WT:-/tmp/wt/rv}
[ -d "$WT" ] || git -C /repo worktree add -q --detach "$WT" HEAD
python3 - "$DIR" <<'PY' | while read id prop commit witness; do
import json, sys, re
k = json.load(open(sys.argv[1] + "/known_findings.json"))["findings"]
for e in k:
    m = re.match(r"fixed: property=(\S+) (\S+) ", e.get("status", ""))
    if m and e.get("witness"):
        print(e["id"], m.group(1), m.group(2), e["witness"])
PY
  git -C "$WT" checkout -q -f --detach "$commit~1" 2>/dev/null || { echo "$id: cannot check out $commit~1"; continue; }
  cp /repo/src/stationeers_pytrapic/_version.py "$WT/src/stationeers_pytrapic/_version.py"
  r=$(PV_REPO=$WT PV_OUT=/tmp/mutout/rv "$DIR/check" "$prop" --replay "$DIR/$witness" 2>/dev/null | grep -E '"signature"|"kind"' | tr -d ' \n')
  echo "$id $prop $commit~1: $r"
done
git -C /repo worktree remove --force "$WT"
