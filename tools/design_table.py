#!/usr/bin/env python3
"""Regenerate the detection table of DESIGN.md section 19.2 (between the DETECTION-TABLE markers) from
seeded/RESULTS.json and the meta.json of every seeded change."""
import json
import os

ROOT = os.path.dirname(os.path.dirname(os.path.abspath(__file__)))
res = json.load(open(os.path.join(ROOT, "seeded", "RESULTS.json")))
rows = ["| change | what it breaks (summary by its author) | own check | other checks tried |", "|---|---|---|---|"]


def cell(r):
    if r["detected"]:
        return f"{r['check']}: **caught** (`{r['signatures'][0] if r['signatures'] else '?'}`)"
    return f"{r['check']}: not at seed 1"


for name in sorted(res, key=lambda n: (n[:3] if n.startswith("R") else "", n)):
    meta = json.load(open(os.path.join(ROOT, "seeded", name, "meta.json")))
    own = meta["breaks_property"]
    summ = " ".join(str(meta.get("summary", "")).split())
    summ = (summ[:150] + "…") if len(summ) > 150 else summ
    summ = summ.replace("|", "/")
    runs = res[name]["runs"]
    ownr = [cell(r) for r in runs if r["check"] == own]
    oth = [cell(r) for r in runs if r["check"] != own]
    rows.append(f"| {name} | {summ} | {'; '.join(ownr) or '–'} | {'; '.join(oth) or '–'} |")
path = os.path.join(ROOT, "DESIGN.md")
text = open(path).read()
b, e = "<!-- DETECTION-TABLE-BEGIN -->", "<!-- DETECTION-TABLE-END -->"
i, j = text.index(b), text.index(e)
text = text[: i + len(b)] + "\n" + "\n".join(rows) + "\n" + text[j:]
open(path, "w").write(text)
print(len(rows) - 2, "rows")
