#!/bin/sh
# tools/retest_seeded.sh <name>... : run the repository's test suite with each seeded patch applied (scratch worktree) and
# record the outcome in meta.json (confirmed.tests_with_patch); used when the first run happened on a loaded machine
DIR=$(cd "$(dirname "$0")/.." && pwd); WT=${PV_MUT_WT:-/tmp/wt/mut2}
[ -d "$WT" ] || git -C /repo worktree add -q --detach "$WT" HEAD
for n in "$@"; do
  git -C "$WT" checkout -- . && git -C "$WT" clean -fdq
  cp /repo/src/stationeers_pytrapic/_version.py "$WT/src/stationeers_pytrapic/_version.py"
  git -C "$WT" apply "$DIR/seeded/$n/patch.diff" || { echo "$n: PATCH DOES NOT APPLY"; continue; }
  R=$(cd "$WT" && PYTHONPATH=$WT/src PYTHONPYCACHEPREFIX=/tmp/w/pyc-retest timeout 900 /venv/bin/python -m pytest -q -p no:cacheprovider 2>&1 | tail -1)
  echo "$n: $R"
  python3 - "$DIR/seeded/$n/meta.json" "$R" <<'P'
import json,sys
m=json.load(open(sys.argv[1])); m.setdefault("confirmed",{})["tests_with_patch"]=sys.argv[2]; json.dump(m,open(sys.argv[1],"w"),indent=1)
P
done
git -C "$WT" checkout -- . && git -C "$WT" clean -fdq
