#!/bin/sh
# tools/try_mutant.sh <patch.diff> <ID> [<ID> ...]   - run checks against a seeded change in a scratch worktree
# (never touches /repo; evidence/replays go to /tmp/mutout/<name>)
set -u
PATCH=$1; shift
WT=${PV_MUT_WT:-/tmp/wt/mut}
DIR=$(cd "$(dirname "$0")/.." && pwd)
if [ ! -d "$WT" ]; then git -C /repo worktree add -q --detach "$WT" HEAD; fi
git -C "$WT" checkout -q --detach "$(git -C /repo rev-parse HEAD)" 2>/dev/null
git -C "$WT" checkout -- . && git -C "$WT" clean -fdq
cp /repo/src/stationeers_pytrapic/_version.py "$WT/src/stationeers_pytrapic/_version.py"
git -C "$WT" apply "$PATCH" || { echo "patch does not apply"; exit 2; }
NAME=$(echo "$PATCH" | tr '/' '_')
for ID in "$@"; do
  OUT=/tmp/mutout/$NAME/$ID; mkdir -p "$OUT"
  PV_REPO=$WT PV_OUT=$OUT VERIF_SEED=${VERIF_SEED:-1} timeout 1500 "$DIR/check" "$ID" --tier "${TIER:-quick}" > "$OUT/log.txt" 2>&1
  echo "$ID exit=$? $(grep -c '^VIOLATION' "$OUT/log.txt") violation(s): $(grep -A1 '^VIOLATION' "$OUT/log.txt" | grep signature | sort -u | head -3 | tr '\n' ' ')"
done
git -C "$WT" checkout -- .
