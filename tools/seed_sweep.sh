#!/bin/sh
# tools/seed_sweep.sh "<seeds>" [IDs...] : run quick checks on the unchanged tree at several VERIF_SEED values
SEEDS=${1:-"2 3 4"}; shift
IDS=${*:-"C01 C02 C03 C04 C05 C06 C07 C08 C09 C10 C11 C12 C13 C14 C15 C16 C17 C18"}
DIR=$(cd "$(dirname "$0")/.." && pwd)
for s in $SEEDS; do for id in $IDS; do
  OUT=/tmp/mutout/sweep/$s/$id; mkdir -p $OUT
  VERIF_SEED=$s PV_OUT=$OUT timeout 1800 "$DIR/check" $id > $OUT/log.txt 2>&1
  echo "seed=$s $id exit=$? $(grep -c '^VIOLATION' $OUT/log.txt) $(tail -1 $OUT/log.txt | cut -c1-150)"
done; done
