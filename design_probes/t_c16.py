import ast, zlib, collections
from stationeers_pytrapic import structures_generated as sg, types as T, types_generated as tg
def crc(s):
    v = zlib.crc32(s.encode()); return (v ^ 0x80000000) - 0x80000000
single = {n: v for n, v in vars(sg).items() if isinstance(v, type) and issubclass(v, T._BaseStructure) and getattr(v, "_prefab_name", None) and not n.startswith("_")}
plural = {n: v for n, v in vars(sg).items() if isinstance(v, T._BaseStructures) and getattr(v, "_prefab_name", None)}
print(len(single), len(plural))
bad = [n for n, c in single.items() if c._hash != crc(c._prefab_name)]
print("hash mismatch singular:", bad[:10], len(bad))
bad = [n for n, c in plural.items() if c._hash != crc(c._prefab_name)]
print("hash mismatch plural:", bad[:10], len(bad))
byname = collections.defaultdict(list)
for n, c in plural.items(): byname[c._prefab_name].append(n)
nop = [n for n, c in single.items() if len(byname.get(c._prefab_name, [])) != 1]
print("singular without unique plural:", nop[:10], len(nop))
sp = collections.Counter(c._prefab_name for c in single.values())
print("duplicate prefab among singular:", [k for k, v in sp.items() if v > 1][:10])
# plural naming
odd = [(n, byname[c._prefab_name]) for n, c in single.items() if byname.get(c._prefab_name) and byname[c._prefab_name][0] not in (n + "s", n + "es", n[:-1] + "ies")]
print("irregular plural names:", odd[:15], len(odd))
# slots
nslots = 0; issues = []
for n, c in single.items():
    obj = c("d0")
    for attr in dir(c):
        p = getattr(c, attr, None)
        if isinstance(p, property) and not attr.startswith("_"):
            try:
                v = p.fget(obj)
            except Exception as e:
                continue
            if hasattr(v, "_slot_index") and not hasattr(v, "_slot_type"):
                nslots += 1
                if attr.startswith("slot") and attr[4:].isdigit() and int(attr[4:]) != v._slot_index:
                    issues.append((n, attr, v._slot_index))
print("slot props", nslots, "slotN mismatches", issues[:5])
# enum duplicates via ast
src = open(tg.__file__).read()
dups = []
for node in ast.parse(src).body:
    if isinstance(node, ast.ClassDef) and any(getattr(b, "id", "") == "_IntEnum" for b in node.bases):
        seen = {}
        for st in node.body:
            if isinstance(st, ast.Assign) and isinstance(st.value, (ast.Constant, ast.UnaryOp)):
                val = ast.literal_eval(st.value)
                nm = st.targets[0].id
                if val in seen: dups.append((node.name, nm, seen[val], val))
                seen[val] = nm
print("enum duplicate numbers:", dups[:10], len(dups))
