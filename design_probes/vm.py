"""Reference IC10 machine (scratch)."""
import math
import re
import zlib

import alu

TOKEN_RE = re.compile(r'HASH\("[^"]*"\)|STR\("[^"]*"\)|#|\S+?(?=\s|#|$)')


class VMError(Exception):
    pass


def crc(name):
    v = zlib.crc32(name.encode())
    return float((v ^ 0x80000000) - 0x80000000)


def strpack(s):
    v = 0
    for ch in s:
        v = v << 8 | ord(ch)
    return float(v)


def tokenize(line):
    toks = []
    for m in TOKEN_RE.finditer(line):
        t = m.group(0)
        if t == "#":
            break
        toks.append(t)
    return toks


def enum_tables():
    import enum

    from stationeers_pytrapic import types_generated as tg

    plain = {}
    qualified = {}
    for n, c in vars(tg).items():
        if isinstance(c, type) and issubclass(c, enum.IntEnum) and c is not enum.IntEnum:
            for k, v in c.__members__.items():
                qualified[f"{n}.{k}"] = float(v.value)
                if n in ("LogicType", "LogicSlotType", "LogicBatchMethod"):
                    plain.setdefault(n, {})[k] = float(v.value)
    return plain, qualified


_PLAIN, _QUAL = enum_tables()

REG_RE = re.compile(r"^r(\d+)$")
DEV_RE = re.compile(r"^d([0-5]|b)$")


class Machine:
    def __init__(self, code, env, max_steps=100000, max_effects=200):
        self.lines = [tokenize(l) for l in code.split("\n")]
        self.labels = {}
        for i, t in enumerate(self.lines):
            if len(t) == 1 and t[0].endswith(":"):
                name = t[0][:-1]
                if name in self.labels:
                    raise VMError(f"duplicate label {name}")
                self.labels[name] = i
        self.reg = [0.0] * 16
        self.ra = 0.0
        self.sp = 0.0
        self.stack = [0.0] * 512
        self.pc = 0
        self.alias = {}
        self.defines = {}
        self.env = env
        self.trace = []
        self.steps = 0
        self.max_steps = max_steps
        self.max_effects = max_effects
        self.halted = None  # 'end' | 'steps' | 'effects' | 'hcf'
        self.shadow = []  # shadow call stack for C06: (return_pc, sp_at_call)
        self.reads = 0

    # ---- operands
    def is_reg(self, t):
        t = self.alias.get(t, t)
        return bool(REG_RE.match(t)) or t in ("sp", "ra")

    def setreg(self, t, v):
        t = self.alias.get(t, t)
        v = float(v)
        m = REG_RE.match(t)
        if m:
            n = int(m.group(1))
            if n > 15:
                raise VMError(f"bad register {t}")
            self.reg[n] = v
        elif t == "sp":
            self.sp = v
        elif t == "ra":
            self.ra = v
        else:
            raise VMError(f"not a register: {t}")

    def num(self, t, kind=None):
        """numeric value of an operand token"""
        t0 = t
        t = self.alias.get(t, t)
        if t in self.defines:
            return self.defines[t]
        m = REG_RE.match(t)
        if m:
            n = int(m.group(1))
            if n > 15:
                raise VMError(f"bad register {t}")
            return self.reg[n]
        if t == "sp":
            return self.sp
        if t == "ra":
            return self.ra
        if t.startswith('HASH("') and t.endswith('")'):
            return crc(t[6:-2])
        if t.startswith('STR("') and t.endswith('")'):
            return strpack(t[5:-2])
        if t.startswith("$"):
            try:
                return float(int(t[1:], 16))
            except ValueError:
                raise VMError(f"bad hex literal {t}")
        if t.startswith("%"):
            try:
                return float(int(t[1:].replace("_", ""), 2))
            except ValueError:
                raise VMError(f"bad bin literal {t}")
        if t in self.labels:
            return float(self.labels[t])
        if t in _QUAL:
            return _QUAL[t]
        if kind and t in _PLAIN.get(kind, {}):
            return _PLAIN[kind][t]
        if re.match(r"^-?(\d+\.?\d*|\.\d+)([eE][-+]?\d+)?$", t):
            return float(t)
        if kind:
            # unknown symbolic logic type: keep symbolic
            return t
        raise VMError(f"cannot evaluate operand {t0!r}")

    def dev(self, t):
        t = self.alias.get(t, t)
        if DEV_RE.match(t):
            return ("pin", t)
        v = self.num(t)
        return ("ref", v)

    def target(self, t):
        v = self.num(t)
        if isinstance(v, str) or math.isnan(v) or math.isinf(v):
            raise VMError(f"bad jump target {t}")
        return int(v)

    # ---- effects / reads
    def effect(self, *ev):
        self.trace.append(tuple(ev))

    def read(self, *key):
        self.reads += 1
        return float(self.env(key, len(self.trace)))

    def saddr(self, v):
        if math.isnan(v) or math.isinf(v):
            raise VMError("bad stack address")
        a = int(v)
        if not 0 <= a < 512:
            raise VMError(f"stack address out of range {a}")
        return a

    # ---- run
    def run(self):
        while self.halted is None:
            self.step()
        return self.trace

    def step(self):
        if self.pc < 0:
            raise VMError("negative pc")
        if self.pc >= len(self.lines):
            self.halted = "end"
            return
        if self.steps >= self.max_steps:
            self.halted = "steps"
            return
        if len(self.trace) >= self.max_effects:
            self.halted = "effects"
            return
        self.steps += 1
        t = self.lines[self.pc]
        pc = self.pc
        self.pc += 1
        if not t or (len(t) == 1 and t[0].endswith(":")):
            return
        op, a = t[0], t[1:]
        n = self.num

        def need(k):
            if len(a) != k:
                raise VMError(f"line {pc}: {op} expects {k} operands, got {a}")

        if op in alu.BIN:
            need(3)
            self.setreg(a[0], alu.BIN[op](n(a[1]), n(a[2])))
        elif op in alu.UN:
            need(2)
            self.setreg(a[0], alu.UN[op](n(a[1])))
        elif op == "select":
            need(4)
            self.setreg(a[0], alu.select(n(a[1]), n(a[2]), n(a[3])))
        elif op == "lerp":
            need(4)
            self.setreg(a[0], alu.lerp(n(a[1]), n(a[2]), n(a[3])))
        elif op == "j":
            need(1)
            tgt = self.target(a[0])
            if self.alias.get(a[0], a[0]) == "ra":
                self.on_return(tgt)
            self.pc = tgt
        elif op == "jal":
            need(1)
            self.ra = float(pc + 1)
            self.shadow.append((pc + 1, self.sp))
            self.pc = self.target(a[0])
        elif op == "jr":
            need(1)
            self.pc = pc + self.target(a[0])
        elif re.match(r"^b(r?)(eq|ne|lt|le|gt|ge)(z?)(al)?$", op):
            m = re.match(r"^b(r?)(eq|ne|lt|le|gt|ge)(z?)(al)?$", op)
            rel, c, z, al = m.groups()
            if z:
                need(2)
                cond = alu.CMP[c](n(a[0]), 0.0)
                tg = a[1]
            else:
                need(3)
                cond = alu.CMP[c](n(a[0]), n(a[1]))
                tg = a[2]
            if cond:
                if al:
                    self.ra = float(pc + 1)
                    self.shadow.append((pc + 1, self.sp))
                self.pc = pc + self.target(tg) if rel else self.target(tg)
        elif op in ("bdse", "bdns", "brdse", "brdns"):
            need(2)
            isset = self.read("devset", self.dev(a[0])) != 0
            cond = isset if op.endswith("se") else not isset
            if cond:
                self.pc = pc + self.target(a[1]) if op.startswith("br") else self.target(a[1])
        elif op in ("sdse", "sdns"):
            need(2)
            isset = self.read("devset", self.dev(a[1])) != 0
            self.setreg(a[0], alu.b2f(isset if op == "sdse" else not isset))
        elif op in ("bnan", "brnan"):
            need(2)
            if math.isnan(n(a[0])):
                self.pc = pc + self.target(a[1]) if op == "brnan" else self.target(a[1])
        elif op == "push":
            need(1)
            self.stack[self.saddr(self.sp)] = n(a[0])
            self.sp += 1
        elif op == "pop":
            need(1)
            self.sp -= 1
            self.setreg(a[0], self.stack[self.saddr(self.sp)])
        elif op == "peek":
            need(1)
            self.setreg(a[0], self.stack[self.saddr(self.sp - 1)])
        elif op == "poke":
            need(2)
            self.stack[self.saddr(n(a[0]))] = n(a[1])
        elif op == "get":
            need(3)
            d = self.dev(a[1])
            if d == ("pin", "db"):
                self.setreg(a[0], self.stack[self.saddr(n(a[2]))])
            else:
                self.setreg(a[0], self.read("get", d, n(a[2])))
        elif op == "getd":
            need(3)
            self.setreg(a[0], self.read("get", ("ref", n(a[1])), n(a[2])))
        elif op == "put":
            need(3)
            d = self.dev(a[0])
            if d == ("pin", "db"):
                self.stack[self.saddr(n(a[1]))] = n(a[2])
            else:
                self.effect("put", d, n(a[1]), n(a[2]))
        elif op == "putd":
            need(3)
            self.effect("put", ("ref", n(a[0])), n(a[1]), n(a[2]))
        elif op == "clr":
            need(1)
            d = self.dev(a[0])
            if d == ("pin", "db"):
                self.stack = [0.0] * 512
            else:
                self.effect("clr", d)
        elif op == "l":
            need(3)
            self.setreg(a[0], self.read("l", self.dev(a[1]), n(a[2], "LogicType")))
        elif op == "s":
            need(3)
            self.effect("s", self.dev(a[0]), n(a[1], "LogicType"), n(a[2]))
        elif op == "ls":
            need(4)
            self.setreg(a[0], self.read("ls", self.dev(a[1]), n(a[2]), n(a[3], "LogicSlotType")))
        elif op == "ss":
            need(4)
            self.effect("ss", self.dev(a[0]), n(a[1]), n(a[2], "LogicSlotType"), n(a[3]))
        elif op == "lb":
            need(4)
            self.setreg(a[0], self.read("lb", n(a[1]), n(a[2], "LogicType"), n(a[3], "LogicBatchMethod")))
        elif op == "lbn":
            need(5)
            self.setreg(a[0], self.read("lbn", n(a[1]), n(a[2]), n(a[3], "LogicType"), n(a[4], "LogicBatchMethod")))
        elif op == "lbs":
            need(5)
            self.setreg(a[0], self.read("lbs", n(a[1]), n(a[2]), n(a[3], "LogicSlotType"), n(a[4], "LogicBatchMethod")))
        elif op == "lbns":
            need(6)
            self.setreg(a[0], self.read("lbns", n(a[1]), n(a[2]), n(a[3]), n(a[4], "LogicSlotType"), n(a[5], "LogicBatchMethod")))
        elif op == "sb":
            need(3)
            self.effect("sb", n(a[0]), n(a[1], "LogicType"), n(a[2]))
        elif op == "sbn":
            need(4)
            self.effect("sbn", n(a[0]), n(a[1]), n(a[2], "LogicType"), n(a[3]))
        elif op == "sbs":
            need(4)
            self.effect("sbs", n(a[0]), n(a[1]), n(a[2], "LogicSlotType"), n(a[3]))
        elif op == "yield":
            need(0)
            self.effect("yield")
        elif op == "sleep":
            need(1)
            self.effect("sleep", n(a[0]))
        elif op == "hcf":
            self.effect("hcf")
            self.halted = "hcf"
        elif op == "alias":
            need(2)
            self.alias[a[0]] = self.alias.get(a[1], a[1])
        elif op == "define":
            need(2)
            self.defines[a[0]] = n(a[1])
        elif op == "rand":
            need(1)
            self.setreg(a[0], self.read("rand"))
        else:
            raise VMError(f"line {pc}: unknown opcode {op!r} in {t}")

    def on_return(self, tgt):
        pass
