import itertools, math, collections
from stationeers_pytrapic.compiler import compile_code, CompileOptions
import vm
from diff import veq
HDR = "from stationeers_pytrapic.symbols import *\n"
ops = ["+", "-", "*", "/", "%", "**", "and", "or", "^", "&", ">>", "<<", "==", "!=", "<", ">", "<=", ">="]
vals = [0, 1, 2, 3, -1, -2, 0.5, -0.5, 7, 10, 0.25, 1.5, 100, 1e6, 1e-3, 12345678, -7.25]
def run(code):
    m = vm.Machine(code, lambda k, e: 0.0, max_steps=100000, max_effects=5000)
    return m.run()
cnt = collections.Counter(); ex = collections.defaultdict(list)
for op in ops:
    pairs = list(itertools.product(vals, vals))
    F = HDR; D = HDR; used = []
    for (a, b) in pairs:
        if op in ("^", "&", ">>", "<<") and (a != int(a) or b != int(b) or a < 0 or b < 0 or b > 30 or a > 2**31): continue
        if op == "%" and b <= 0: continue
        if op == "/" and b == 0: continue
        if op == "**" and ((a < 0 and b != int(b)) or (a == 0 and b < 0) or abs(b) > 20 or abs(a) > 1000): continue
        used.append((a, b))
        F += f"db.Setting = ({a!r}) {op} ({b!r})\n"
        D += f"stack[0] = {a!r}\nstack[1] = {b!r}\ndb.Setting = stack[0] {op} stack[1]\n"
    rf = compile_code(F, CompileOptions(append_version=False)); rd = compile_code(D, CompileOptions(append_version=False))
    if "error" in rf or "error" in rd:
        print(op, "ERR", (rf.get("error") or rd.get("error"))["description"][:150]); continue
    try:
        tf, td = run(rf["code"]), run(rd["code"])
    except vm.VMError as e:
        print(op, "VMERR", e); continue
    for (a, b), x, y in zip(used, tf, td):
        ok = veq(x, y)
        cnt[(op, ok)] += 1
        if not ok and len(ex[op]) < 4: ex[op].append((a, b, x[-1], y[-1]))
for op in ops:
    print(op, "agree", cnt[(op, True)], "disagree", cnt[(op, False)], ex[op])
