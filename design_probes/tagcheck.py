import os
os.environ["PYTRAPIC_VERIF"] = "1"
import re
from stationeers_pytrapic.compiler import compile_code, CompileOptions
import vm, interp
from diff import make_env

def align(code, recs):
    """map final text line index -> record (or None)"""
    out = {}
    k = 0
    lines = code.split("\n")
    for i, l in enumerate(lines):
        t = " ".join(vm.tokenize(l))
        if not t:
            continue
        while k < len(recs) and " ".join(vm.tokenize(recs[k]["text"])) != t:
            k += 1
        if k >= len(recs):
            raise RuntimeError("cannot align line %d %r" % (i, l))
        out[i] = recs[k]
        k += 1
    return out

class TagVM(vm.Machine):
    def __init__(self, code, env, recs, **kw):
        super().__init__(code, env, **kw)
        self.recmap = align(code, recs)
        self.tags = {}
        self.clobbers = []
    def step(self):
        pc = self.pc
        if 0 <= pc < len(self.lines) and self.halted is None:
            rec = self.recmap.get(pc)
            t = self.lines[pc]
            if rec and t and not t[0].endswith(":"):
                ops = t[1:]
                if rec["out"] is not None:
                    outtok, intoks = ops[0], ops[1:]
                else:
                    outtok, intoks = None, ops
                for tok, v in zip(intoks, rec["ins"]):
                    if v and v.startswith("__register.") and re.match(r"^r\d+$", tok):
                        tg = self.tags.get(tok)
                        if tg is not None and tg != v:
                            self.clobbers.append((pc, " ".join(t), tok, "expected", v, "found", tg))
                if outtok and rec["out"] and rec["out"].startswith("__register.") and re.match(r"^r\d+$", outtok):
                    self._pending = (outtok, rec["out"])
                else:
                    self._pending = None
            else:
                self._pending = None
        super().step()
        if getattr(self, "_pending", None):
            self.tags[self._pending[0]] = self._pending[1]
            self._pending = None

def check(src, opts=None, seed=0, max_effects=40):
    opts = dict(opts or {}); opts.setdefault("append_version", False)
    srcs = src if isinstance(src, dict) else {"": src}
    res = compile_code(dict(srcs), CompileOptions(**opts))
    if "error" in res:
        return "reject", res["error"]["description"][:80]
    m = TagVM(res["code"], make_env(seed), res["_verif"]["instructions"], max_steps=20000, max_effects=max_effects)
    try:
        m.run()
    except vm.VMError as e:
        return "vmerror", str(e)
    if m.clobbers:
        return "clobber", (m.clobbers[:3], res["code"])
    return "ok", len(m.tags)
