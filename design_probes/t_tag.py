import glob, os
from tagcheck import check
files = sorted(glob.glob('/repo/test/cases/*.py')) + sorted(glob.glob('/repo/src/stationeers_pytrapic/examples/*.py'))
for f in files:
    if '__init__' in f: continue
    src = open(f).read()
    for opts in ({}, dict(inline_functions=False), dict(use_push_pop_functions=True, inline_functions=False)):
        try:
            v, d = check(src, opts, seed=1)
        except Exception as e:
            v, d = 'EXC', repr(e)[:200]
        if v in ('clobber','EXC','vmerror'):
            print(os.path.basename(f), list(opts), v, str(d)[:400])
print("done")
