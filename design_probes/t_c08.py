import glob, os
from stationeers_pytrapic.compiler import compile_code, CompileOptions
import vm
def norm(code):
    m = vm.Machine(code, lambda k,e: 0.0)
    out = []
    for t in m.lines:
        if not t: continue
        if len(t)==1 and t[0].endswith(':'):
            out.append(t); continue
        row=[t[0]]
        for tok in t[1:]:
            if m.is_reg(tok) or vm.DEV_RE.match(tok) or tok in m.labels:
                row.append(tok); continue
            v = None
            for kind in (None, "LogicType", "LogicSlotType", "LogicBatchMethod"):
                try:
                    v = m.num(tok, kind); break
                except vm.VMError:
                    pass
            row.append(v if v is not None else tok)
        out.append(row)
    return out
files = sorted(glob.glob('/repo/test/cases/*.py')) + sorted(glob.glob('/repo/src/stationeers_pytrapic/examples/*.py'))
bad = 0
for f in files:
    if '__init__' in f: continue
    src = open(f).read().replace("pytrapic:", "pytrapiq:")
    for base in (dict(), dict(remove_labels=True), dict(inline_functions=False)):
        a = compile_code(src, CompileOptions(append_version=False, compact=False, **base))
        b = compile_code(src, CompileOptions(append_version=False, compact=True, **base))
        if 'error' in a or 'error' in b:
            continue
        na, nb = norm(a['code']), norm(b['code'])
        if na != nb:
            bad += 1
            print(os.path.basename(f), base)
            for x, y in zip(na, nb):
                if x != y: print("   ", x, "|", y)
print("bad", bad)
