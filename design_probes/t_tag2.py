from tagcheck import check
src = '''from stationeers_pytrapic.symbols import *
def f1(p10, p11):
    p10 += p11 - db.Setting
    d3.Activate = (-p11)
    return p10
def f2(p20):
    db.Setting = f1(d0.Setting, p20)
    d3.Activate = max(p20, 1)
f2(d1.Setting)
while True:
    yield_()
'''
print(check(src, {}, seed=3))
import random
from gen import G
import collections
cnt = collections.Counter()
shown = 0
for i in range(600):
    s = G(random.Random(i), {"break","continue","global","early_return"}).program()
    for o in ({}, dict(inline_functions=False), dict(inline_functions=False, use_push_pop_functions=True)):
        try:
            v, d = check(s, o, seed=i)
        except Exception as e:
            v, d = "EXC", repr(e)[:300]
        cnt[v] += 1
        if v in ("clobber", "EXC") and shown < 6:
            shown += 1
            print("=" * 20, i, o, v)
            print(s)
            print(d[0] if v == "clobber" else d)
            if v == "clobber": print(d[1])
print(cnt)
