"""Scratch random program generator (uses random.Random; the real one will use hypothesis)."""
import random


class G:
    def __init__(self, rnd, allow=()):
        self.r = rnd
        self.allow = set(allow)
        self.lines = []
        self.funcs = []  # (name, nparams, has_ret, pure)
        self.loop_depth = 0
        self.uid = 0
        self.ro = set()

    def fresh(self, p="v"):
        self.uid += 1
        return f"{p}{self.uid}"

    # ---------- expressions
    def const(self):
        r = self.r
        return r.choice(["0", "1", "2", "3", "5", "10", "0.5", "0.25", "-1", "7", "100", "2.5"])

    def read(self):
        r = self.r
        return r.choice([
            "d0.Setting", "d1.Setting", "d0.On", "db.Setting", "d2.Mode", "stack[3]", "stack[4]",
            "Batteries.Ratio.Average", "GasSensors[\"A\"].Pressure.Maximum", "furn.Import.Occupied",
            "furn.slot1.Quantity", "st3[2]",
        ])

    def atom(self, vars_):
        r = self.r
        k = r.random()
        if vars_ and k < 0.45:
            return r.choice(vars_)
        if k < 0.7:
            return self.const()
        return self.read()

    def expr(self, vars_, d=0):
        r = self.r
        if d > 2 or r.random() < 0.35:
            return self.atom(vars_)
        k = r.random()
        if k < 0.45:
            op = r.choice(["+", "-", "*", "+", "-"])
            return f"({self.expr(vars_, d+1)} {op} {self.expr(vars_, d+1)})"
        if k < 0.55:
            return f"({self.expr(vars_, d+1)} / {r.choice(['2', '4', '8'])})"
        if k < 0.62:
            return f"(-{self.atom(vars_)})"
        if k < 0.7:
            return f"{r.choice(['max', 'min'])}({self.expr(vars_, d+1)}, {self.expr(vars_, d+1)})"
        if k < 0.76:
            return f"{r.choice(['abs', 'floor', 'ceil'])}({self.expr(vars_, d+1)})"
        if k < 0.84:
            saved = set(self.allow); self.allow.discard("calls_in_expr")
            try:
                return f"({self.expr(vars_, d+1)} if {self.cond(vars_, d+1)} else {self.expr(vars_, d+1)})"
            finally:
                self.allow = saved
        if k < 0.9:
            return f"({self.cond(vars_, d+1)})"
        cands = [f for f in self.funcs if f[2]]
        if cands and "calls_in_expr" in self.allow:
            f = r.choice(cands)
            return f"{f[0]}({', '.join(self.expr(vars_, d+1) for _ in range(f[1]))})"
        return self.atom(vars_)

    def cmp(self, vars_, d=0):
        return f"{self.expr(vars_, d+1)} {self.r.choice(['<', '<=', '>', '>=', '==', '!='])} {self.expr(vars_, d+1)}"

    def cond(self, vars_, d=0):
        saved = set(self.allow); self.allow.discard("calls_in_expr")
        try:
            return self._cond(vars_, d)
        finally:
            self.allow = saved

    def _cond(self, vars_, d=0):
        r = self.r
        k = r.random()
        if d > 2 or k < 0.6:
            return self.cmp(vars_, d)
        if k < 0.8:
            return f"({self.cmp(vars_, d)}) {r.choice(['and', 'or'])} ({self.cmp(vars_, d)})"
        return f"not ({self.cmp(vars_, d)})"

    # ---------- statements
    def write(self, vars_):
        r = self.r
        tgt = r.choice(["db.Setting", "d0.On", "d1.Setting", "Batteries.Lock", "GrowLights[\"A\"].On",
                        "furn.Activate", "furn.Export.Occupied", "st3[1]", "db.Mode"])
        return f"{tgt} = {self.expr(vars_)}"

    def block(self, vars_, ind, depth, in_func, n=None):
        r = self.r
        out = []
        vars_ = list(vars_)
        n = n or r.randint(1, 2)
        for _ in range(n):
            k = r.random()
            pad = "    " * ind
            if k < 0.25:
                out.append(pad + self.write(vars_))
            elif k < 0.45:
                wv = [x for x in vars_ if x not in self.ro]
                if wv and r.random() < 0.6:
                    v = r.choice(wv)
                    if r.random() < 0.5:
                        out.append(pad + f"{v} {r.choice(['+=', '-=', '*='])} {self.expr(vars_)}")
                    else:
                        out.append(pad + f"{v} = {self.expr(vars_)}")
                else:
                    v = self.fresh()
                    out.append(pad + f"{v} = {self.expr(vars_)}")
                    vars_.append(v)
            elif k < 0.6 and depth < 3:
                out.append(pad + f"if {self.cond(vars_)}:")
                out += self.block(vars_, ind + 1, depth + 1, in_func)
                if r.random() < 0.5:
                    if r.random() < 0.3:
                        out.append(pad + f"elif {self.cond(vars_)}:")
                        out += self.block(vars_, ind + 1, depth + 1, in_func)
                    out.append(pad + "else:")
                    out += self.block(vars_, ind + 1, depth + 1, in_func)
            elif k < 0.7 and depth < 2:
                i = self.fresh("i")
                self.ro.add(i)
                rng = r.choice(["3", "1, 4", "0, 6, 2", "5, 0, -2", "2"])
                out.append(pad + f"for {i} in range({rng}):")
                self.loop_depth += 1
                out += self.block(vars_ + [i], ind + 1, depth + 1, in_func)
                if r.random() < 0.3 and "break" in self.allow:
                    out.append(pad + f"    if {self.cond(vars_ + [i])}:")
                    out.append(pad + f"        break")
                self.loop_depth -= 1
            elif k < 0.78 and depth < 2:
                c = self.fresh("c")
                out.append(pad + f"{c} = 0")
                out.append(pad + f"while {c} < {r.choice(['2', '3', '4'])}:")
                out.append(pad + f"    {c} += 1")
                self.loop_depth += 1
                if r.random() < 0.3 and "continue" in self.allow:
                    out.append(pad + f"    if {self.cond(vars_ + [c])}:")
                    out.append(pad + f"        continue")
                out += self.block(vars_ + [c], ind + 1, depth + 1, in_func)
                self.loop_depth -= 1
                vars_.append(c)
            elif k < 0.83 and depth < 2 and "forlist" in self.allow:
                i = self.fresh("e")
                self.ro.add(i)
                out.append(pad + f"for {i} in [{', '.join(self.const() for _ in range(r.randint(1,4)))}]:")
                out += self.block(vars_ + [i], ind + 1, depth + 1, in_func)
            elif k < 0.95 and self.funcs:
                f = r.choice(self.funcs)
                call = f"{f[0]}({', '.join(self.expr(vars_) for _ in range(f[1]))})"
                if f[2] and r.random() < 0.7:
                    wv = [x for x in vars_ if x not in self.ro]
                    if wv and r.random() < 0.5:
                        out.append(pad + f"{r.choice(wv)} = {call}")
                    else:
                        out.append(pad + f"db.Setting = {call}")
                else:
                    out.append(pad + call)
            elif in_func and r.random() < 0.5 and "early_return" in self.allow and depth > 0:
                out.append(pad + (f"return {self.expr(vars_)}" if in_func == "ret" else "return"))
            else:
                out.append(pad + self.write(vars_))
        return out

    def program(self):
        r = self.r
        L = ["from stationeers_pytrapic.symbols import *", "furn = ArcFurnace(d3)", "st3 = Stack(d4)"]
        nglob = r.randint(0, 2)
        globs = [f"g{i}" for i in range(nglob)]
        for g in globs:
            L.append(f"{g} = {self.const()}")
        nf = r.randint(1, 3)
        for fi in range(nf):
            name = f"f{fi}"
            npar = r.randint(0, 2)
            has_ret = r.random() < 0.6
            params = [f"p{fi}{j}" for j in range(npar)]
            L.append(f"def {name}({', '.join(params)}):")
            gl = [g for g in globs if r.random() < 0.4]
            if gl and "global" in self.allow:
                L.append(f"    global {', '.join(gl)}")
            else:
                gl = []
            vars_ = params + gl
            body = self.block(vars_, 1, 0, "ret" if has_ret else "noret")
            L += body
            if has_ret:
                L.append(f"    return {self.expr(vars_)}")
            self.funcs.append((name, npar, has_ret, False))
        # main
        L += self.block(globs, 0, 2, None, n=r.randint(0, 2))
        L.append("while True:")
        L += self.block(globs, 1, 2, None, n=r.randint(1, 3))
        L.append("    yield_()")
        return "\n".join(L) + "\n"
