import math
import zlib

from stationeers_pytrapic.compiler import CompileOptions, compile_code

import interp
import vm

HDR = "from stationeers_pytrapic.symbols import *\n"

POOL = [0.0, 1.0, 2.0, 3.0, -1.0, 0.5, 5.0, 10.0, 100.0, -7.0, 0.25, 4.0, 6.0, 7.0, 20.0, 1000.0]


def make_env(seed, pool=POOL):
    def env(key, epoch):
        h = zlib.crc32(repr((key, epoch, seed)).encode())
        return pool[h % len(pool)]

    return env


def veq(a, b):
    if isinstance(a, float) and isinstance(b, float):
        if math.isnan(a) and math.isnan(b):
            return True
        if a == b:
            return True
        return abs(a - b) <= 1e-9 * max(abs(a), abs(b))
    if isinstance(a, tuple) and isinstance(b, tuple):
        return len(a) == len(b) and all(veq(x, y) for x, y in zip(a, b))
    return a == b


def run(src, opts=None, seed=0, max_effects=60, verbose=False):
    """returns (verdict, detail). verdict in ok / mismatch / reject / unsupported / srcerror / vmerror / inconclusive"""
    opts = dict(opts or {})
    opts.setdefault("append_version", False)
    srcs = src if isinstance(src, dict) else {"": src}
    res = compile_code(dict(srcs), CompileOptions(**opts))
    if "error" in res:
        return "reject", res["error"].get("description", "")[:200]
    env = make_env(seed)
    it = interp.Interp(srcs, env, max_effects=max_effects)
    try:
        ts = it.run()
    except interp.Unsupported as e:
        return "unsupported", str(e)
    except interp.SrcError as e:
        return "srcerror", str(e)
    m = vm.Machine(res["code"], env, max_steps=min(60 * it.steps + 2000, 400000), max_effects=max_effects)
    try:
        tv = m.run()
    except vm.VMError as e:
        return "vmerror", (str(e), res["code"], ts)
    n = min(len(ts), len(tv))
    for i in range(n):
        if not veq(ts[i], tv[i]):
            return "mismatch", (i, ts[i], tv[i], res["code"], ts, tv)
    if len(ts) != len(tv):
        longer_src = len(ts) > len(tv)
        # the shorter side must have been cut by a budget, not finished
        short_halt = m.halted if longer_src else it.halted
        if short_halt == "end":
            return "mismatch", ("length", len(ts), len(tv), it.halted, m.halted, res["code"], ts, tv)
        if short_halt == "steps" and (it.halted if longer_src else m.halted) in ("end", "effects"):
            if longer_src:
                return "mismatch", ("compiled spins", len(ts), len(tv), it.halted, m.halted, res["code"], ts, tv)
            return "inconclusive", "source out of steps"
    else:
        if it.halted == "end" and m.halted == "steps":
            return "mismatch", ("compiled does not halt", res["code"], ts, tv)
        if it.halted == "end" and m.halted == "end":
            pass
    return "ok", (len(ts), it.halted, m.halted)


if __name__ == "__main__":
    import sys
    src = open(sys.argv[1]).read()
    print(run(src))
