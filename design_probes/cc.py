import sys, json
from stationeers_pytrapic.compiler import compile_code, CompileOptions
def cc(src, **kw):
    kw.setdefault('append_version', False)
    hdr = "from stationeers_pytrapic.symbols import *\n"
    if isinstance(src, dict):
        r = compile_code(src, CompileOptions(**kw))
    else:
        r = compile_code(hdr+src, CompileOptions(**kw))
    if 'error' in r:
        print("ERROR:", r['error'].get('description'), (r['error'].get('stack_trace') or '')[-600:])
    else:
        print(r['code']); print('#', {k:v for k,v in r.items() if k!='code'})
    print('-----')
    return r
if __name__ == '__main__':
    cc(sys.stdin.read())
