from diff import run
from cc import cc
src = '''from stationeers_pytrapic.symbols import *
def f(a):
    if a > 2:
        return 7
    db.Mode = a
while True:
    f(d0.Setting)
    f(d1.Setting)
    db.Setting = 1
    yield_()
'''
for o in (dict(inline_functions=False), dict(inline_functions=False, use_push_pop_functions=True)):
    v, d = run(src, o, seed=2)
    print(o, v, d[:3] if v=="mismatch" else d)
cc(src[len("from stationeers_pytrapic.symbols import *\n"):], inline_functions=False, use_push_pop_functions=True)
# modules vs merged
A = {"": "from stationeers_pytrapic.symbols import *\nfrom library import m1 as q\nfrom library import m2\ncount = 5\ndef bump():\n    global count\n    count += 3\n    db.Mode = count\nq.bump()\nm2.bump()\nbump()\nwhile True:\n    q.bump()\n    m2.bump()\n    bump()\n    db.Setting = count + m2.getc()\n    yield_()\n",
    "m1": "from stationeers_pytrapic.symbols import *\ncount = 0\ndef bump():\n    global count\n    count += 1\n    d0.Setting = count\nif __name__ == '__main__':\n    db.On = 99\n",
    "m2": "from stationeers_pytrapic.symbols import *\ncount = 100\ndef bump():\n    global count\n    count += 10\n    d1.Setting = count\ndef getc():\n    return count\ndef unused():\n    db.On = 1\n"}
for o in ({}, dict(inline_functions=False), dict(remove_labels=True, compact=True)):
    v, d = run(A, o, seed=2)
    print("modules", o, v, d[:3] if v=="mismatch" else d)
