import random, sys, collections, traceback
from gen import G
from diff import run
allow = set(sys.argv[2].split(',')) if len(sys.argv) > 2 else set()
N = int(sys.argv[1])
cnt = collections.Counter()
shown = collections.Counter()
OPTS = [dict(), dict(inline_functions=False), dict(inline_functions=False, use_push_pop_functions=True), dict(remove_labels=True, compact=True), dict(use_push_pop_functions=True), dict(inline_functions=False, tail_call_optimization=True), dict(tail_call_optimization=True, use_push_pop_functions=True, remove_labels=True)]
for i in range(N):
    rnd = random.Random(i)
    src = G(rnd, allow).program()
    opts = OPTS[i % len(OPTS)]
    try:
        v, d = run(src, opts, seed=i, max_effects=40)
    except Exception as e:
        v, d = 'EXC', traceback.format_exc()[-400:]
    key = v
    if v == 'reject':
        import re as _re; key = 'reject:' + _re.sub(r'at line \d+:\d+', '', d)[:70].replace('\n', ' ')
    if v == 'vmerror':
        key = 'vmerror:' + d[0][:50]
    cnt[key] += 1
    if v in ('mismatch', 'vmerror', 'EXC') and shown[key[:20]] < int(sys.argv[3]) if len(sys.argv) > 3 else 0:
        shown[key[:20]] += 1
        print('=' * 30, i, opts, v)
        print(src)
        if v == 'mismatch':
            print(d[:3]); print(d[-3]); print('SRC', d[-2][:12]); print('VM ', d[-1][:12])
        else:
            print(d if isinstance(d, str) else d[0]); 
            if not isinstance(d, str): print(d[1])
for k, v in cnt.most_common():
    print(v, k)
