from cc import cc
src = """
def foo():
    db.Setting = HASH("foo")
def a_b():
    db.Setting = 1
def a():
    GrowLights["a"].On = 2
while True:
    foo(); foo(); a_b(); a(); a_b(); a()
"""
cc(src, remove_labels=True)
