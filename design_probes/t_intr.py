import ast, collections
from stationeers_pytrapic.compiler import compile_code, CompileOptions
src = open('/repo/src/stationeers_pytrapic/intrinsics.py').read()
cnt = collections.Counter()
for n in ast.parse(src).body:
    if not isinstance(n, ast.FunctionDef) or n.name in ("HASH", "STR"): continue
    args = []
    for i, a in enumerate(n.args.args):
        ann = ast.unparse(a.annotation)
        if "_Device" in ann and "float" not in ann: args.append(f"d{i+1}")
        elif ann == "str": args.append(f'"nm{i}"')
        elif "_Device" in ann: args.append(f"d{i+1}")
        else: args.append(str(11 * (i + 1)))
    ret = ast.unparse(n.body[-1])
    has_out = "_Register('invalid')" in ret
    call = f"{n.name}({', '.join(args)})"
    prog = "from stationeers_pytrapic.symbols import *\n" + (f"x = {call}\ndb.Setting = x\n" if has_out else call + "\n")
    r = compile_code(prog, CompileOptions(append_version=False))
    if "error" in r:
        print(n.name, "ERROR", r["error"]["description"][:100].replace("\n", " ")); cnt["error"] += 1; continue
    line = r["code"].split("\n")[0]
    toks = line.split()
    opname = n.name.rstrip("_") if n.name in ("yield_", "and_", "or_", "not_") else n.name
    exp = [opname] + (["r0"] if has_out else []) + [a.strip('"') for a in args]
    if toks != exp:
        print(n.name, "| got:", line, "| expected:", " ".join(exp)); cnt["diff"] += 1
    else:
        cnt["ok"] += 1
print(cnt)
