import random
from gen import G
from stationeers_pytrapic.compiler import compile_code, CompileOptions
n=0
for i in range(1400):
    src = G(random.Random(i), {"break","continue","global","early_return","calls_in_expr"}).program()
    r = compile_code(src, CompileOptions(append_version=False))
    if "error" in r and "list index" in r["error"]["description"]:
        print(i); print(src); print(r["error"]["stack_trace"][-900:]); n+=1
        if n>=1: break
