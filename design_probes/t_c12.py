from cc import cc
import time
t=time.time()
cc('''
@constexpr
def f(a, b=2, name="x"):
    r = a * b + len(name)
    if name.startswith("q"):
        r += HASH(name) % 1000
    return r
@constexpr
def g(n):
    return f(n, name="q\\"uote'd") + [1, 2, 3][n % 3] / 4
@constexpr
def h(e, k=SortingClass.Ores):
    return (e << 8) | k
def user(p):
    db.Mode = f(3, name="ab c") + p
db.Setting = f(1)
db.Setting = f(-2.5, b=-3)
db.Setting = g(4)
db.Setting = h(SlotClass.Ore, k=SortingClass.Ices) + 1
user(d0.Setting)
if f(0) > 0:
    db.On = 1
for i in range(f(1, 1)):
    db.On = i
while True:
    yield_()
''')
print(round(time.time()-t,2),"s")
cc({"": 'from stationeers_pytrapic.symbols import *\nfrom library import lib\ndb.Setting = lib.k(5)\ndb.Mode = lib.use()\nwhile True:\n    yield_()\n',
    "lib": 'from stationeers_pytrapic.symbols import *\n@constexpr\ndef k(a):\n    return a * 7\ndef use():\n    return k(2) + d0.On\n'})
cc('''
@constexpr
def f(a):
    return eval("1")
db.Setting = f(1)
''')
cc('''
@constexpr
def f(a):
    reopen = 3   # contains the word fragment only
    return a + reopen
db.Setting = f(1)
''')
